"""Front end B: symbolic execution of the plain-Python glue (class methods, helpers) parsed with
`ast` from the tree under test on every run.

Supported subset (anything else raises Unsupported -> the affected obligations are UNDECIDED):
statements  Assign / AugAssign / AnnAssign / Expr / If / Raise / Return / For (over concrete
            sequences, ranges with concrete bounds, dict.items()) / While (concrete condition) /
            With (np.load) / Try-except / Pass / Delete / Continue / Break
expressions Name Attribute Call Compare BoolOp (short-circuit) BinOp UnaryOp Constant Subscript
            Tuple List Dict Starred keyword JoinedStr (value ignored) IfExp

Objects are records of symbolic fields; NumPy scalars are mathematical integers / reals tagged
with their dtype (constructing np.uintN(x) forks an OverflowError path when x is out of range);
arrays are abstract (dtype, shape terms, optional backing buffer slice, contents version).
A call of a jitted kernel is *not* executed: it is recorded as an effect with its argument values
(the kernel's contract is applied by the obligations that inspect the effect).
"""
import ast
import copy
import inspect
import itertools
import textwrap

import z3

_uid = itertools.count()


class Unsupported(Exception):
    pass


def uid(p):
    return "%s!%d" % (p, next(_uid))


DT = {"uint8": (8, False), "uint16": (16, False), "uint32": (32, False), "uint64": (64, False), "int8": (8, True), "int32": (32, True), "int64": (64, True)}


class Sym:
    """scalar: z3 term of sort Int / Real / Bool, dtype tag: 'int' (python int), 'uintN', 'float', 'bool'"""

    def __init__(self, t, dtype):
        self.t, self.dtype = t, dtype

    def __repr__(self):
        return "Sym(%s:%s)" % (self.t, self.dtype)


class Const:
    def __init__(self, v):
        self.v = v

    def __repr__(self):
        return "Const(%r)" % (self.v,)


class Ref:
    """reference to a heap object"""

    def __init__(self, oid):
        self.oid = oid

    def __repr__(self):
        return "Ref(%s)" % self.oid


class Arr:
    def __init__(self, dtype, shape, buf=None, data=None, base=None):
        self.dtype, self.shape = dtype, tuple(shape)
        self.buf = buf  # (block oid, start term, stop term or None) when a view of a buffer
        self.data = data or uid("data")  # ghost name of the contents
        self.base = base

    def content(self, idx):
        """value stored at the (symbolic) index: an uninterpreted function of the array's contents
        name; a converted array (astype) is the conversion of its source's content"""
        conv = getattr(self, "conv", None)
        if conv is not None:
            src, dt = conv
            t = src.content(idx)
            if dt in DT and src.dtype in DT:
                w, sg = DT[dt]
                sw, ssg = DT[src.dtype]
                if not sg and not ssg and w >= sw:
                    return t
                lo = -(1 << (w - 1)) if sg else 0
                return (t - lo) % (1 << w) + lo
            return z3.Int(uid("conv"))
        f = z3.Function("CONTENT_" + self.data, *([z3.IntSort()] * (len(self.shape) + 1)))
        return f(*idx)

    def itemsize(self):
        return {"uint8": 1, "uint16": 2, "uint32": 4, "uint64": 8, "float64": 8, "float32": 4}[self.dtype]

    def nbytes(self):
        n = z3.IntVal(self.itemsize())
        for s in self.shape:
            n = n * s
        return z3.simplify(n)


class BufSlice:
    def __init__(self, block, start, stop):
        self.block, self.start, self.stop = block, start, stop


class Opaque:
    """value the subset cannot describe; using it in a way that matters raises Unsupported"""

    def __init__(self, what):
        self.what = what

    def __repr__(self):
        return "Opaque(%s)" % self.what


class Kernel:
    def __init__(self, qualname, disp):
        self.qualname, self.disp = qualname, disp


class PyFunc:
    def __init__(self, node, module, cls=None, name=None):
        self.node, self.module, self.cls, self.name = node, module, cls, name or node.name


class PyClass:
    def __init__(self, name, node, module, bases):
        self.name, self.node, self.module, self.bases = name, node, module, bases
        self.methods = {}
        for st in node.body:
            if isinstance(st, ast.FunctionDef):
                static = any(isinstance(d, ast.Name) and d.id == "staticmethod" for d in st.decorator_list)
                self.methods[st.name] = (PyFunc(st, module, self, st.name), static)

    def lookup(self, name):
        if name in self.methods:
            return self.methods[name]
        for b in self.bases:
            r = b.lookup(name)
            if r:
                return r
        return None

    def mro_names(self):
        out = [self.name]
        for b in self.bases:
            out += b.mro_names()
        return out


class BoundMethod:
    def __init__(self, func, selfref):
        self.func, self.selfref = func, selfref


class Builtin:
    def __init__(self, name):
        self.name = name


def _copy_containers(v, memo):
    """python lists / dicts (mutable, possibly shared inside one state) are copied so that a forked
    state never sees the other branch's in-place updates; aliasing inside the state is preserved"""
    if isinstance(v, list):
        if id(v) in memo:
            return memo[id(v)]
        c = memo[id(v)] = []
        c.extend(_copy_containers(x, memo) for x in v)
        return c
    if isinstance(v, dict):
        if id(v) in memo:
            return memo[id(v)]
        c = memo[id(v)] = {}
        for k, x in v.items():
            c[k] = _copy_containers(x, memo)
        return c
    if isinstance(v, tuple) and any(isinstance(x, (list, dict, tuple)) for x in v):
        return tuple(_copy_containers(x, memo) for x in v)
    return v


class State:
    def __init__(self):
        self.objs = {}  # oid -> dict(cls=PyClass|str, fields={})
        self.pc = []
        self.effects = []
        self.frames = [{}]  # call stack of local environments (innermost last)

    @property
    def locals(self):
        return self.frames[-1]

    @locals.setter
    def locals(self, env):
        self.frames[-1] = env

    def fork(self):
        s = State()
        memo = {}
        s.objs = {k: {"cls": v["cls"], "fields": {fk: _copy_containers(fv, memo) for fk, fv in v["fields"].items()}} for k, v in self.objs.items()}
        s.pc = list(self.pc)
        s.effects = list(self.effects)
        s.frames = [{k: _copy_containers(v, memo) for k, v in fr.items()} for fr in self.frames]
        return s

    def new_obj(self, cls, fields=None):
        oid = uid("obj")
        self.objs[oid] = {"cls": cls, "fields": dict(fields or {})}
        return Ref(oid)


class Outcome:
    def __init__(self, kind, value, state):
        self.kind, self.value, self.state = kind, value, state  # kind: 'return' | 'raise'

    @property
    def exc(self):
        return self.value if self.kind == "raise" else None


class _Signal(Exception):
    pass


class Module:
    def __init__(self, pymod):
        self.pymod = pymod
        self.name = pymod.__name__.split(".")[-1]
        src = inspect.getsource(pymod)
        self.tree = ast.parse(src)
        self.funcs, self.classes = {}, {}
        for st in self.tree.body:
            if isinstance(st, ast.FunctionDef):
                self.funcs[st.name] = PyFunc(st, self)
        for st in self.tree.body:
            if isinstance(st, ast.ClassDef):
                bases = [self.classes[b.id] for b in st.bases if isinstance(b, ast.Name) and b.id in self.classes]
                self.classes[st.name] = PyClass(st.name, st, self, bases)


MAX_PATHS = 3000


class PyExec:
    def __init__(self, modules, hooks=None):
        """modules: list of python module objects of the tree under test"""
        self.modules = {m.__name__.split(".")[-1]: Module(m) for m in modules}
        self.hooks = hooks or {}
        self.depth = 0
        self.paths = 0

    # ------------------------------------------------------------------ helpers
    def cls(self, modname, name):
        return self.modules[modname].classes[name]

    def func(self, modname, name):
        return self.modules[modname].funcs[name]

    def truth(self, v):
        """-> z3 Bool term or python bool"""
        if isinstance(v, Sym):
            if v.dtype == "bool":
                return v.t
            if z3.is_int(v.t) or z3.is_real(v.t):
                return v.t != 0
        if isinstance(v, Const):
            return bool(v.v)
        if isinstance(v, Ref):
            return True
        if isinstance(v, (list, tuple, dict)):
            return bool(v)
        if isinstance(v, Arr):
            raise Unsupported("truth value of an array")
        if isinstance(v, Opaque):
            raise Unsupported("truth value of %s" % v.what)
        raise Unsupported("truth of %r" % (v,))

    def num(self, v):
        """-> (z3 arithmetic term, is_real)"""
        if isinstance(v, Sym):
            if v.dtype == "bool":
                return z3.If(v.t, 1, 0), False
            return v.t, z3.is_real(v.t)
        if isinstance(v, Const):
            if isinstance(v.v, bool):
                return z3.IntVal(int(v.v)), False
            if isinstance(v.v, int):
                return z3.IntVal(v.v), False
            if isinstance(v.v, float):
                return z3.RealVal(repr(v.v)), True
        raise Unsupported("numeric value of %r" % (v,))

    def concrete(self, v):
        """python value of a concrete scalar, else None"""
        if isinstance(v, Const):
            return v.v
        if isinstance(v, Sym):
            t = z3.simplify(v.t)
            if z3.is_int_value(t):
                return t.as_long()
            if z3.is_true(t):
                return True
            if z3.is_false(t):
                return False
            if z3.is_rational_value(t):
                return float(t.as_fraction())
        return None

    # ------------------------------------------------------------------ running
    def call_function(self, fn, args, kwargs, st):
        """-> list of Outcome"""
        if self.depth > 12:
            raise Unsupported("call depth")
        node = fn.node
        a = node.args
        params = [x.arg for x in a.args]
        env = {}
        defaults = [None] * (len(params) - len(a.defaults)) + list(a.defaults)
        args = list(args)
        for i, pn in enumerate(params):
            if i < len(args):
                env[pn] = args[i]
            elif pn in kwargs:
                env[pn] = kwargs.pop(pn)
            elif defaults[i] is not None:
                env[pn] = None  # filled below (needs evaluation)
            else:
                raise Unsupported("missing argument %s of %s" % (pn, fn.name))
        extra_pos = args[len(params):]
        if extra_pos:
            if a.vararg is None:
                return [Outcome("raise", Const(TypeError), st)]
            env[a.vararg.arg] = tuple(extra_pos)
        elif a.vararg is not None:
            env[a.vararg.arg] = ()
        for kw, d in zip(a.kwonlyargs, a.kw_defaults):
            if kw.arg in kwargs:
                env[kw.arg] = kwargs.pop(kw.arg)
            elif d is not None:
                env[kw.arg] = None
        if a.kwarg is not None:
            env[a.kwarg.arg] = dict(kwargs)
            kwargs = {}
        if kwargs:
            return [Outcome("raise", Const(TypeError), st)]
        st.frames.append(env)
        depth0 = len(st.frames)
        # evaluate defaults (constants in this code base)
        for i, pn in enumerate(params):
            if env.get(pn, 0) is None and defaults[i] is not None and i >= len(args):
                env[pn] = self.eval_const(defaults[i])
        for kw, d in zip(a.kwonlyargs, a.kw_defaults):
            if env.get(kw.arg, 0) is None and d is not None:
                env[kw.arg] = self.eval_const(d)
        self.depth += 1
        try:
            outs = self.exec_block(node.body, st, fn)
        finally:
            self.depth -= 1
        res = []
        for kind, val, s in outs:
            if len(s.frames) != depth0:
                raise Unsupported("unbalanced call stack in %s" % fn.name)
            s.frames.pop()
            if kind == "fall":
                res.append(Outcome("return", Const(None), s))
            elif kind in ("return", "raise"):
                res.append(Outcome(kind, val, s))
            else:
                raise Unsupported("%s outside loop" % kind)
        return res

    def eval_const(self, node):
        if isinstance(node, ast.Constant):
            return Const(node.value)
        if isinstance(node, ast.UnaryOp) and isinstance(node.op, ast.USub) and isinstance(node.operand, ast.Constant):
            return Const(-node.operand.value)
        raise Unsupported("non-constant default")

    # exec_block returns list of (kind, value, state) with kind in fall/return/raise/break/continue
    def exec_block(self, stmts, st, fn):
        states = [("fall", None, st)]
        for node in stmts:
            nxt = []
            for kind, val, s in states:
                if kind != "fall":
                    nxt.append((kind, val, s))
                    continue
                nxt.extend(self.exec_stmt(node, s, fn))
            states = nxt
            self.paths = max(self.paths, len(states))
            if len(states) > MAX_PATHS:
                raise Unsupported("path explosion in %s" % fn.name)
        return states

    def exec_stmt(self, node, st, fn):
        if isinstance(node, ast.Expr):
            if isinstance(node.value, ast.Constant):
                return [("fall", None, st)]  # docstring
            return [(k if k == "raise" else "fall", v if k == "raise" else None, s) for k, v, s in self.eval(node.value, st, fn)]
        if isinstance(node, (ast.Assign, ast.AnnAssign)):
            if isinstance(node, ast.AnnAssign):
                targets, value = [node.target], node.value
                if value is None:
                    return [("fall", None, st)]
            else:
                targets, value = node.targets, node.value
            out = []
            for k, v, s in self.eval(value, st, fn):
                if k == "raise":
                    out.append((k, v, s))
                    continue
                rs = [("fall", None, s)]
                for t in targets:
                    rs2 = []
                    for kk, vv, ss in rs:
                        if kk != "fall":
                            rs2.append((kk, vv, ss))
                        else:
                            rs2.extend(self.assign(t, v, ss, fn))
                    rs = rs2
                out.extend(rs)
            return out
        if isinstance(node, ast.AugAssign):
            # numpy: `arr op= x` updates the array in place (the object stays, its contents change)
            pre = None
            try:
                pre = self.eval(self._load(node.target), st.fork(), fn)
            except Unsupported:
                pre = None
            if pre and len(pre) == 1 and pre[0][0] == "val" and isinstance(pre[0][1], Arr):
                out = []
                for k, v, s in self.eval(node.value, st, fn):
                    if k == "raise":
                        out.append((k, v, s))
                        continue
                    for k2, tgt, s2 in self.eval(self._load(node.target), s, fn):
                        if k2 == "raise":
                            out.append((k2, tgt, s2))
                        else:
                            s2.effects.append(("arr-store", tgt, ("augassign", type(node.op).__name__, v)))
                            out.append(("fall", None, s2))
                return out
            binop = ast.BinOp(left=self._load(node.target), op=node.op, right=node.value)
            ast.copy_location(binop, node)
            out = []
            for k, v, s in self.eval(binop, st, fn):
                if k == "raise":
                    out.append((k, v, s))
                else:
                    out.extend(self.assign(node.target, v, s, fn))
            return out
        if isinstance(node, ast.If):
            out = []
            for k, v, s in self.eval(node.test, st, fn):
                if k == "raise":
                    out.append((k, v, s))
                    continue
                for cond, s2 in self.branch(v, s):
                    out.extend(self.exec_block(node.body if cond else node.orelse, s2, fn))
            return out
        if isinstance(node, ast.Raise):
            if node.exc is None:
                return [("raise", st.locals.get("$exc", Const(Exception)), st)]
            out = []
            for k, v, s in self.eval(node.exc, st, fn):
                out.append(("raise", v, s))
            return out
        if isinstance(node, ast.Return):
            if node.value is None:
                return [("return", Const(None), st)]
            return [("return" if k == "val" else k, v, s) for k, v, s in self.eval(node.value, st, fn)]
        if isinstance(node, ast.Pass):
            return [("fall", None, st)]
        if isinstance(node, ast.Continue):
            return [("continue", None, st)]
        if isinstance(node, ast.Break):
            return [("break", None, st)]
        if isinstance(node, ast.Delete):
            for t in node.targets:
                if isinstance(t, ast.Name):
                    st.locals.pop(t.id, None)
                elif isinstance(t, ast.Attribute):
                    outs = self.eval(t.value, st, fn)
                    if len(outs) != 1 or outs[0][0] != "val" or not isinstance(outs[0][1], Ref):
                        raise Unsupported("del of complex attribute")
                    ref = outs[0][1]
                    st.objs[ref.oid]["fields"].pop(t.attr, None)
                    st.effects.append(("delattr", ref.oid, t.attr))
                elif isinstance(t, ast.Subscript):
                    raise Unsupported("del subscript")
            return [("fall", None, st)]
        if isinstance(node, ast.For):
            return self.exec_for(node, st, fn)
        if isinstance(node, ast.While):
            return self.exec_while(node, st, fn)
        if isinstance(node, ast.With):
            return self.exec_with(node, st, fn)
        if isinstance(node, ast.Try):
            return self.exec_try(node, st, fn)
        if isinstance(node, (ast.Import, ast.ImportFrom)):
            return [("fall", None, st)]
        raise Unsupported("statement %s at line %s" % (type(node).__name__, getattr(node, "lineno", "?")))

    def _load(self, target):
        t = copy.deepcopy(target)
        for n in ast.walk(t):
            if hasattr(n, "ctx"):
                n.ctx = ast.Load()
        return t

    def branch(self, v, st):
        """fork on the truth of v -> [(bool, state)]"""
        t = self.truth(v)
        if isinstance(t, bool):
            return [(t, st)]
        ts = z3.simplify(t)
        if z3.is_true(ts):
            return [(True, st)]
        if z3.is_false(ts):
            return [(False, st)]
        out = []
        for val in (True, False):
            s2 = st.fork()
            s2.pc.append(t if val else z3.Not(t))
            if self.feasible(s2):
                out.append((val, s2))
        return out

    def feasible(self, st):
        s = z3.Solver()
        s.set("rlimit", 3_000_000)
        for f in st.pc:
            s.add(f)
        return s.check() != z3.unsat

    # ------------------------------------------------------------------ assignment
    def assign(self, target, value, st, fn):
        if isinstance(target, ast.Name):
            st.locals[target.id] = value
            return [("fall", None, st)]
        if isinstance(target, ast.Attribute):
            out = []
            for k, v, s in self.eval(target.value, st, fn):
                if k == "raise":
                    out.append((k, v, s))
                    continue
                if isinstance(v, Opaque):
                    s.effects.append(("opaque-setattr", v.what, target.attr))
                    out.append(("fall", None, s))
                    continue
                if not isinstance(v, Ref):
                    raise Unsupported("attribute store on %r" % (v,))
                s.objs[v.oid]["fields"][target.attr] = value
                s.effects.append(("setattr", v.oid, target.attr, value))
                out.append(("fall", None, s))
            return out
        if isinstance(target, (ast.Tuple, ast.List)):
            if not isinstance(value, (tuple, list)):
                try:
                    value = list(self.iter_items(value, st))  # e.g. a small array of known length
                except Unsupported:
                    raise Unsupported("unpacking %r" % (value,))
            if len(value) != len(target.elts):
                raise Unsupported("unpacking %r" % (value,))
            rs = [("fall", None, st)]
            for t, v in zip(target.elts, value):
                rs2 = []
                for kk, vv, ss in rs:
                    rs2.extend(self.assign(t, v, ss, fn) if kk == "fall" else [(kk, vv, ss)])
                rs = rs2
            return rs
        if isinstance(target, ast.Subscript):
            out = []
            for k, base, s in self.eval(target.value, st, fn):
                if k == "raise":
                    out.append((k, base, s))
                    continue
                for k2, idx, s2 in self.eval_index(target.slice, s, fn):
                    if k2 == "raise":
                        out.append((k2, idx, s2))
                        continue
                    out.extend(self.store_subscript(base, idx, value, s2))
            return out
        raise Unsupported("assignment target %s" % type(target).__name__)

    def store_subscript(self, base, idx, value, st):
        if isinstance(base, dict):
            ck = self.concrete(idx) if not isinstance(idx, (bytes, str)) else idx
            base[ck if ck is not None else id(idx)] = value
            return [("fall", None, st)]
        if isinstance(base, list):
            i = self.concrete(idx)
            if i is None:
                raise Unsupported("symbolic list index store")
            base[i] = value
            return [("fall", None, st)]
        if isinstance(base, Arr):
            st.effects.append(("arr-store", base, idx, value))
            return [("fall", None, st)]
        if isinstance(base, Ref):
            h = self.hooks.get(("setitem", self._clsname(st, base)))
            if h:
                return h(self, st, base, idx, value)
        raise Unsupported("subscript store on %r" % (base,))

    def _clsname(self, st, ref):
        c = st.objs[ref.oid]["cls"]
        return c.name if isinstance(c, PyClass) else c

    # ------------------------------------------------------------------ loops / with / try
    def iter_items(self, v, st):
        if isinstance(v, (list, tuple)):
            return list(v)
        if isinstance(v, dict):
            return list(v.keys())
        if isinstance(v, Const) and isinstance(v.v, (list, tuple, range)):
            return [Const(x) for x in v.v]
        if isinstance(v, Ref) and self._clsname(st, v) == "$generator" and "items" in st.objs[v.oid]["fields"]:
            # a one-shot iterator: iterating it hands out what is left and leaves nothing behind
            f = st.objs[v.oid]["fields"]
            left, f["items"] = list(f["items"]), ()
            return left
        if isinstance(v, Ref):
            h = self.hooks.get(("iter", self._clsname(st, v)))
            if h:
                return h(self, st, v)
        raise Unsupported("iteration over %r" % (v,))

    def exec_for(self, node, st, fn):
        out = []
        for k, it, s in self.eval(node.iter, st, fn):
            if k == "raise":
                out.append((k, it, s))
                continue
            items = self.iter_items(it, s)
            states = [("fall", None, s)]
            for item in items:
                nxt = []
                for kk, vv, ss in states:
                    if kk != "fall":
                        nxt.append((kk, vv, ss))
                        continue
                    for a in self.assign(node.target, item, ss, fn):
                        if a[0] != "fall":
                            nxt.append(a)
                            continue
                        for bk, bv, bs in self.exec_block(node.body, a[2], fn):
                            if bk == "continue":
                                nxt.append(("fall", None, bs))
                            elif bk == "break":
                                nxt.append(("broken", None, bs))
                            else:
                                nxt.append((bk, bv, bs))
                states = nxt
                if len(states) > MAX_PATHS:
                    raise Unsupported("path explosion in loop")
            for kk, vv, ss in states:
                if kk == "broken":
                    out.append(("fall", None, ss))
                elif kk == "fall":
                    out.extend(self.exec_block(node.orelse, ss, fn) if node.orelse else [("fall", None, ss)])
                else:
                    out.append((kk, vv, ss))
        return out

    def exec_while(self, node, st, fn, limit=400):
        out = []
        states = [st]
        for _ in range(limit):
            if not states:
                return out
            nxt = []
            for s in states:
                for k, v, s2 in self.eval(node.test, s, fn):
                    if k == "raise":
                        out.append((k, v, s2))
                        continue
                    for cond, s3 in self.branch(v, s2):
                        if not cond:
                            out.append(("fall", None, s3))
                            continue
                        for bk, bv, bs in self.exec_block(node.body, s3, fn):
                            if bk in ("fall", "continue"):
                                nxt.append(bs)
                            elif bk == "break":
                                out.append(("fall", None, bs))
                            else:
                                out.append((bk, bv, bs))
            states = nxt
            if len(states) > MAX_PATHS:
                raise Unsupported("path explosion in while")
        raise Unsupported("while loop did not terminate within %d symbolic iterations" % limit)

    def exec_with(self, node, st, fn):
        if len(node.items) != 1:
            raise Unsupported("with: several items")
        item = node.items[0]
        out = []
        for k, v, s in self.eval(item.context_expr, st, fn):
            if k == "raise":
                out.append((k, v, s))
                continue
            if item.optional_vars is not None:
                rs = self.assign(item.optional_vars, v, s, fn)
            else:
                rs = [("fall", None, s)]
            for kk, vv, ss in rs:
                if kk != "fall":
                    out.append((kk, vv, ss))
                    continue
                ss.effects.append(("with-enter", v))
                for bk, bv, bs in self.exec_block(node.body, ss, fn):
                    bs.effects.append(("with-exit", v))
                    out.append((bk, bv, bs))
        return out

    def exc_matches(self, exc, handler_type, st, fn):
        if handler_type is None:
            return True
        et = exc.v if isinstance(exc, Const) else None
        if isinstance(exc, Ref):
            et = st.objs[exc.oid]["fields"].get("$type")
        names = []
        if isinstance(handler_type, ast.Tuple):
            names = [n.id for n in handler_type.elts if isinstance(n, ast.Name)]
        elif isinstance(handler_type, ast.Name):
            names = [handler_type.id]
        else:
            raise Unsupported("except clause form")
        import builtins

        for n in names:
            ht = getattr(builtins, n, None)
            if ht is None:
                raise Unsupported("unknown exception class %s" % n)
            if isinstance(et, type) and issubclass(et, ht):
                return True
        return False

    def exec_try(self, node, st, fn):
        out = []
        for k, v, s in self.exec_block(node.body, st, fn):
            if k != "raise":
                res = [(k, v, s)]
                if k == "fall" and node.orelse:
                    res = self.exec_block(node.orelse, s, fn)
            else:
                res = None
                for h in node.handlers:
                    if self.exc_matches(v, h.type, s, fn):
                        if h.name:
                            s.locals[h.name] = v
                        s.locals["$exc"] = v
                        s.effects.append(("except", h.lineno, v))
                        res = self.exec_block(h.body, s, fn)
                        break
                if res is None:
                    res = [(k, v, s)]
            if node.finalbody:
                res2 = []
                for kk, vv, ss in res:
                    for fk, fv, fs in self.exec_block(node.finalbody, ss, fn):
                        res2.append((kk, vv, fs) if fk == "fall" else (fk, fv, fs))
                res = res2
            out.extend(res)
        return out

    # ------------------------------------------------------------------ expressions
    def eval(self, node, st, fn):
        """-> list of ('val'|'raise', value, state)"""
        m = getattr(self, "e_" + type(node).__name__, None)
        if m is None:
            raise Unsupported("expression %s at line %s" % (type(node).__name__, getattr(node, "lineno", "?")))
        return m(node, st, fn)

    def eval_many(self, nodes, st, fn):
        """evaluate a list of expressions left to right -> list of ('val', [values], state) / raises"""
        res = [("val", [], st)]
        for n in nodes:
            nxt = []
            for k, vals, s in res:
                if k == "raise":
                    nxt.append((k, vals, s))
                    continue
                if isinstance(n, ast.Starred):
                    for k2, v2, s2 in self.eval(n.value, s, fn):
                        if k2 == "raise":
                            nxt.append((k2, v2, s2))
                        else:
                            nxt.append(("val", vals + list(self.iter_items(v2, s2)), s2))
                    continue
                for k2, v2, s2 in self.eval(n, s, fn):
                    if k2 == "raise":
                        nxt.append((k2, v2, s2))
                    else:
                        nxt.append(("val", vals + [v2], s2))
            res = nxt
        return res

    def e_Constant(self, node, st, fn):
        return [("val", Const(node.value), st)]

    def e_JoinedStr(self, node, st, fn):
        # the text is not modelled, but the embedded expressions are evaluated (they may raise)
        states = [st]
        out = []
        for part in node.values:
            if not isinstance(part, ast.FormattedValue):
                continue
            nxt = []
            for s in states:
                try:
                    rs = self.eval(part.value, s, fn)
                except Unsupported:
                    rs = [("val", Opaque("fmt"), s)]  # an expression outside the subset: assumed not to raise
                for k, v, s2 in rs:
                    if k == "raise":
                        out.append((k, v, s2))
                    else:
                        nxt.append(s2)
            states = nxt
        return out + [("val", Const("<f-string>"), s) for s in states]

    def e_Name(self, node, st, fn):
        n = node.id
        if n in st.locals:
            return [("val", st.locals[n], st)]
        return [("val", self.global_name(n, fn), st)]

    def global_name(self, n, fn):
        mod = fn.module
        g = getattr(mod.pymod, n, None)
        if type(g).__name__ == "CPUDispatcher":
            return self.wrap_global(g, n)
        if n in mod.classes:
            return mod.classes[n]
        if n in mod.funcs:
            return mod.funcs[n]
        if g is None:
            import builtins

            if hasattr(builtins, n):
                b = getattr(builtins, n)
                if isinstance(b, type) and issubclass(b, BaseException):
                    return Const(b)
                return Builtin(n)
            raise Unsupported("unknown name %s" % n)
        return self.wrap_global(g, n)

    def wrap_global(self, g, n):
        from numba.core.dispatcher import Dispatcher

        if isinstance(g, Dispatcher):
            return Kernel("%s.%s" % (g.py_func.__module__.split(".")[-1], g.py_func.__name__), g)
        if inspect.ismodule(g):
            return Const(g)
        if inspect.isclass(g):
            for m in self.modules.values():
                if g.__name__ in m.classes and m.pymod.__name__ == g.__module__:
                    return m.classes[g.__name__]
            return Const(g)
        if inspect.isfunction(g):
            for m in self.modules.values():
                if g.__name__ in m.funcs and m.pymod.__name__ == g.__module__:
                    return m.funcs[g.__name__]
            return Const(g)
        c = Const(g)
        c.gname = n
        return c

    def e_Tuple(self, node, st, fn):
        return [(k, tuple(v) if k == "val" else v, s) for k, v, s in self.eval_many(node.elts, st, fn)]

    def e_List(self, node, st, fn):
        return [(k, list(v) if k == "val" else v, s) for k, v, s in self.eval_many(node.elts, st, fn)]

    def e_Dict(self, node, st, fn):
        out = []
        for k, vals, s in self.eval_many(node.values, st, fn):
            if k == "raise":
                out.append((k, vals, s))
                continue
            d = {}
            for kn, v in zip(node.keys, vals):
                if not isinstance(kn, ast.Constant):
                    raise Unsupported("dict with non-constant key")
                d[kn.value] = v
            out.append(("val", d, s))
        return out

    def e_IfExp(self, node, st, fn):
        out = []
        for k, v, s in self.eval(node.test, st, fn):
            if k == "raise":
                out.append((k, v, s))
                continue
            brs = self.branch(v, s)
            if len(brs) == 2:
                # both outcomes feasible: when the two arms are plain numbers computed without any
                # effect, the expression is one if-then-else term (as min()/max() are) - no fork
                t = self.truth(v)
                arms = []
                for cond, s2 in brs:
                    n_pc, n_eff = len(s2.pc), len(s2.effects)
                    try:
                        r = self.eval(node.body if cond else node.orelse, s2, fn)
                    except Unsupported:
                        r = None
                    if r is None or len(r) != 1 or r[0][0] != "val" or r[0][2] is not s2 or len(s2.pc) != n_pc or len(s2.effects) != n_eff or not isinstance(r[0][1], (Sym, Const)):
                        arms = None
                        break
                    arms.append((cond, r[0][1]))
                if arms:
                    try:
                        av = dict(arms)
                        (x, xr), (y, yr) = self.num(av[True]), self.num(av[False])
                        da = av[True].dtype if isinstance(av[True], Sym) else "int"
                        db = av[False].dtype if isinstance(av[False], Sym) else "int"
                        if x.sort() == y.sort() and not z3.is_bool(x) and (da == db or not (xr or yr)):
                            # (mixed python / numpy integers: value semantics suffice, as for min())
                            out.append(("val", Sym(z3.If(t, x, y), da if da == db else self.result_dtype(av[True], av[False], False)), s))
                            continue
                    except Unsupported:
                        pass
                brs = self.branch(v, s)
            for cond, s2 in brs:
                out.extend(self.eval(node.body if cond else node.orelse, s2, fn))
        return out

    def e_BoolOp(self, node, st, fn):
        is_or = isinstance(node.op, ast.Or)
        res = []  # finished
        pending = [(None, st)]
        for i, vn in enumerate(node.values):
            nxt = []
            for _, s in pending:
                for k, v, s2 in self.eval(vn, s, fn):
                    if k == "raise":
                        res.append((k, v, s2))
                        continue
                    if i == len(node.values) - 1:
                        res.append(("val", v, s2))
                        continue
                    for cond, s3 in self.branch(v, s2):
                        if cond == is_or:
                            res.append(("val", v if not isinstance(v, Sym) else Sym(z3.BoolVal(is_or), "bool"), s3))
                        else:
                            nxt.append((None, s3))
            pending = nxt
        return res

    def e_UnaryOp(self, node, st, fn):
        out = []
        for k, v, s in self.eval(node.operand, st, fn):
            if k == "raise":
                out.append((k, v, s))
            elif isinstance(node.op, ast.Not):
                t = self.truth(v)
                out.append(("val", Const(not t) if isinstance(t, bool) else Sym(z3.Not(t), "bool"), s))
            elif isinstance(node.op, ast.USub):
                t, isr = self.num(v)
                out.append(("val", Sym(-t, "float" if isr else "int"), s))
            else:
                raise Unsupported("unary %s" % type(node.op).__name__)
        return out

    def e_BinOp(self, node, st, fn):
        out = []
        for k, vals, s in self.eval_many([node.left, node.right], st, fn):
            if k == "raise":
                out.append((k, vals, s))
                continue
            if isinstance(vals[0], Arr) or isinstance(vals[1], Arr):
                # element-wise arithmetic: a new array whose contents are not modelled
                src = vals[0] if isinstance(vals[0], Arr) else vals[1]
                out.append(("val", Arr(src.dtype, src.shape, data=uid("elementwise")), s))
                continue
            out.extend(self.binop(node.op, vals[0], vals[1], s))
        return out

    def result_dtype(self, a, b, isr):
        if isr:
            return "float"
        da = a.dtype if isinstance(a, Sym) else "int"
        db = b.dtype if isinstance(b, Sym) else "int"
        if da == db:
            return da
        if da == "int" or da == "bool":
            return db if db != "bool" else "int"
        if db == "int" or db == "bool":
            return da
        return "int"  # mixed numpy widths: value semantics only (range not tracked)

    def binop(self, op, a, b, st):
        if isinstance(a, Const) and isinstance(b, Const) and not isinstance(a.v, type) and isinstance(a.v, (int, float, str, bytes, tuple)) and isinstance(b.v, (int, float, str, bytes, tuple)):
            import operator as o

            f = {ast.Add: o.add, ast.Sub: o.sub, ast.Mult: o.mul, ast.Div: o.truediv, ast.FloorDiv: o.floordiv, ast.Mod: o.mod, ast.Pow: o.pow, ast.LShift: o.lshift, ast.RShift: o.rshift}.get(type(op))
            if f is None:
                raise Unsupported("binop %s" % type(op).__name__)
            try:
                return [("val", Const(f(a.v, b.v)), st)]
            except ZeroDivisionError:
                return [("raise", Const(ZeroDivisionError), st)]
        if isinstance(a, (list, tuple)) and isinstance(b, (list, tuple)) and isinstance(op, ast.Add):
            return [("val", type(a)(list(a) + list(b)), st)]
        if isinstance(a, Const) and isinstance(a.v, str):
            return [("val", Const("<str>"), st)]
        x, xr = self.num(a)
        y, yr = self.num(b)
        isr = xr or yr or isinstance(op, ast.Div)
        if isr:
            x = z3.ToReal(x) if z3.is_int(x) else x
            y = z3.ToReal(y) if z3.is_int(y) else y
        dt = self.result_dtype(a, b, isr)
        if isinstance(op, ast.Add):
            r = x + y
        elif isinstance(op, ast.Sub):
            r = x - y
        elif isinstance(op, ast.Mult):
            r = x * y
        elif isinstance(op, ast.Div):
            outs = []
            for cond, s2 in self.branch(Sym(y == 0, "bool"), st):
                outs.append(("raise", Const(ZeroDivisionError), s2) if cond else ("val", Sym(x / y, "float"), s2))
            return outs
        elif isinstance(op, ast.FloorDiv):
            cy = self.concrete(b)
            if cy is None or cy <= 0 or isr:
                raise Unsupported("floor division by a symbolic or non-positive value")
            r = x / y
        elif isinstance(op, ast.Mod):
            cy = self.concrete(b)
            if cy is None or cy <= 0 or isr:
                raise Unsupported("modulo by symbolic")
            r = x % y
        elif isinstance(op, ast.LShift):
            cy = self.concrete(b)
            if cy is None:
                # x << p with symbolic p: exact power of two for 0 <= p < 64 (else uninterpreted)
                pw = POW2(y)
                for e in range(63, -1, -1):
                    pw = z3.If(y == e, z3.IntVal(1 << e), pw)
                r = pw * x
            else:
                r = x * (1 << cy)
        elif isinstance(op, ast.Pow):
            cx, cy = self.concrete(a), self.concrete(b)
            if cx is not None and cy is not None:
                return [("val", Const(cx**cy), st)]
            raise Unsupported("symbolic power")
        else:
            raise Unsupported("binop %s" % type(op).__name__)
        return [("val", Sym(z3.simplify(r), dt), st)]

    def e_Compare(self, node, st, fn):
        out = []
        for k, vals, s in self.eval_many([node.left] + list(node.comparators), st, fn):
            if k == "raise":
                out.append((k, vals, s))
                continue
            acc = None
            for op, a, b in zip(node.ops, vals, vals[1:]):
                c = self.compare(op, a, b, s)
                acc = c if acc is None else self.and_(acc, c)
            out.append(("val", acc, s))
        return out

    def and_(self, a, b):
        ta, tb = self.truth(a), self.truth(b)
        if isinstance(ta, bool) and isinstance(tb, bool):
            return Const(ta and tb)
        ta = z3.BoolVal(ta) if isinstance(ta, bool) else ta
        tb = z3.BoolVal(tb) if isinstance(tb, bool) else tb
        return Sym(z3.And(ta, tb), "bool")

    def compare(self, op, a, b, st):
        if isinstance(a, Opaque) or isinstance(b, Opaque):
            return Sym(z3.Bool(uid("opaque_cmp")), "bool")  # unknown outcome: both branches are explored
        if isinstance(op, (ast.Is, ast.IsNot)):
            if isinstance(b, Const) and b.v is None:
                r = isinstance(a, Const) and a.v is None
                if isinstance(a, Opaque) and a.what == "base-array":
                    r = False
                elif isinstance(a, (Opaque, BoundMethod)):
                    # an attribute or value this interpreter has no model of: never guess
                    raise Unsupported("is None on a value without a model (%s)" % (getattr(a, "what", None) or getattr(getattr(a, "func", None), "name", "?")))
            elif isinstance(a, Ref) and isinstance(b, Ref):
                r = a.oid == b.oid
            else:
                raise Unsupported("identity comparison")
            return Const(r if isinstance(op, ast.Is) else not r)
        if isinstance(op, (ast.In, ast.NotIn)):
            if isinstance(b, (dict, list, tuple)):
                ck = self.concrete(a) if not isinstance(a, (str, bytes)) else a
                r = ck in ([self.concrete(x) for x in b] if not isinstance(b, dict) else b)
                return Const(r if isinstance(op, ast.In) else not r)
            raise Unsupported("in on %r" % (b,))
        # dtype comparison np.uint32 vs dtype objects, strings, classes
        if isinstance(a, Const) and isinstance(b, Const) and not (isinstance(a.v, (int, float)) and isinstance(b.v, (int, float))):
            if isinstance(op, ast.Eq):
                return Const(a.v == b.v)
            if isinstance(op, ast.NotEq):
                return Const(a.v != b.v)
        if isinstance(a, dict) and isinstance(b, dict) and isinstance(op, (ast.Eq, ast.NotEq)):
            return self.dict_eq(a, b, isinstance(op, ast.Eq))
        if isinstance(a, (tuple, list)) and isinstance(b, (tuple, list)) and isinstance(op, (ast.Eq, ast.NotEq)):
            if len(a) != len(b):
                return Const(isinstance(op, ast.NotEq))
            acc = Const(True)
            for x_, y_ in zip(a, b):
                acc = self.and_(acc, self.compare(ast.Eq(), x_, y_, st))
            if isinstance(op, ast.Eq):
                return acc
            t = self.truth(acc)
            return Const(not t) if isinstance(t, bool) else Sym(z3.Not(t), "bool")
        x, xr = self.num(a)
        y, yr = self.num(b)
        if xr or yr:
            x = z3.ToReal(x) if z3.is_int(x) else x
            y = z3.ToReal(y) if z3.is_int(y) else y
        r = {ast.Eq: lambda: x == y, ast.NotEq: lambda: x != y, ast.Lt: lambda: x < y, ast.LtE: lambda: x <= y, ast.Gt: lambda: x > y, ast.GtE: lambda: x >= y}[type(op)]()
        return Sym(z3.simplify(r), "bool")

    def dict_eq(self, a, b, eq):
        if set(a.keys()) != set(b.keys()):
            return Const(not eq)
        conj = []
        for k in a:
            va, vb = a[k], b[k]
            if isinstance(va, Const) and isinstance(vb, Const) and not isinstance(va.v, (int, float)):
                if va.v != vb.v:
                    return Const(not eq)
                continue
            if (isinstance(va, Const) and va.v is None) != (isinstance(vb, Const) and vb.v is None):
                return Const(not eq)
            if isinstance(va, Const) and va.v is None:
                continue
            x, _ = self.num(va)
            y, _ = self.num(vb)
            conj.append(x == y)
        t = z3.And(*conj) if conj else z3.BoolVal(True)
        return Sym(z3.simplify(t if eq else z3.Not(t)), "bool")

    def e_Attribute(self, node, st, fn):
        out = []
        for k, v, s in self.eval(node.value, st, fn):
            if k == "raise":
                out.append((k, v, s))
                continue
            out.extend(self.getattr(v, node.attr, s, fn))
        return out

    def getattr(self, v, attr, st, fn):
        if isinstance(v, Ref):
            o = st.objs[v.oid]
            if attr in o["fields"]:
                return [("val", o["fields"][attr], st)]
            c = o["cls"]
            if isinstance(c, PyClass):
                m = c.lookup(attr)
                if m:
                    return [("val", BoundMethod(m[0], None if m[1] else v), st)]
            h = self.hooks.get(("getattr", c.name if isinstance(c, PyClass) else c))
            if h:
                r = h(self, st, v, attr)
                if r is not None:
                    return r
            return [("raise", Const(AttributeError), st)]
        if isinstance(v, PyClass):
            m = v.lookup(attr)
            if m:
                return [("val", BoundMethod(m[0], None), st)] if m[1] else [("val", m[0], st)]
            raise Unsupported("class attribute %s.%s" % (v.name, attr))
        if isinstance(v, Const):
            if inspect.ismodule(v.v) or inspect.isclass(v.v):
                try:
                    return [("val", self.wrap_global(getattr(v.v, attr), attr), st)]
                except AttributeError:
                    return [("raise", Const(AttributeError), st)]
            if type(v.v).__name__ in ("iinfo", "finfo") and attr in ("max", "min", "bits", "eps"):
                x = getattr(v.v, attr)
                return [("val", Const(int(x) if type(v.v).__name__ == "iinfo" or attr == "bits" else float(x)), st)]
            return [("val", BoundMethod(Builtin("const." + attr), v), st)]
        if isinstance(v, Arr):
            if attr == "nbytes":
                return [("val", Sym(v.nbytes(), "int"), st)]
            if attr == "dtype":
                return [("val", Const("dtype:" + v.dtype), st)]
            if attr == "shape":
                return [("val", tuple(Sym(s_, "int") for s_ in v.shape), st)]
            if attr == "size":
                n = z3.IntVal(1)
                for s_ in v.shape:
                    n = n * s_
                return [("val", Sym(z3.simplify(n), "int"), st)]
            if attr == "ndim":
                return [("val", Const(len(v.shape)), st)]
            if attr == "base":
                # None for an array that owns its data (np.zeros), the owner for a view
                owns = v.buf is None and v.base is None
                return [("val", Const(None) if owns else Opaque("base-array"), st)]
            if attr == "itemsize" and v.dtype in DT:
                return [("val", Const(v.itemsize()), st)]
            return [("val", BoundMethod(Builtin("arr." + attr), v), st)]
        if isinstance(v, Sym):
            if attr == "dtype":
                return [("val", Const("dtype:" + v.dtype), st)]
            return [("val", BoundMethod(Builtin("sym." + attr), v), st)]
        if isinstance(v, (dict, list, tuple)):
            return [("val", BoundMethod(Builtin("py." + attr), v), st)]
        if isinstance(v, Opaque):
            return [("val", Opaque(v.what + "." + attr), st)]
        raise Unsupported("attribute %s of %r" % (attr, v))

    def eval_index(self, node, st, fn):
        if isinstance(node, ast.Slice):
            parts = [node.lower, node.upper]
            res = [("val", [], st)]
            for pnode in parts:
                nxt = []
                for k, vals, s in res:
                    if k == "raise":
                        nxt.append((k, vals, s))
                    elif pnode is None:
                        nxt.append(("val", vals + [None], s))
                    else:
                        for k2, v2, s2 in self.eval(pnode, s, fn):
                            nxt.append((k2, v2, s2) if k2 == "raise" else ("val", vals + [v2], s2))
                res = nxt
            return [(k, ("slice", v[0], v[1]) if k == "val" else v, s) for k, v, s in res]
        if isinstance(node, ast.Tuple):
            res = [("val", [], st)]
            for e in node.elts:
                nxt = []
                for k, vals, s in res:
                    if k == "raise":
                        nxt.append((k, vals, s))
                        continue
                    for k2, v2, s2 in self.eval_index(e, s, fn):
                        nxt.append((k2, v2, s2) if k2 == "raise" else ("val", vals + [v2], s2))
                res = nxt
            return [(k, tuple(v) if k == "val" else v, s) for k, v, s in res]
        return self.eval(node, st, fn)

    def e_Subscript(self, node, st, fn):
        out = []
        for k, base, s in self.eval(node.value, st, fn):
            if k == "raise":
                out.append((k, base, s))
                continue
            for k2, idx, s2 in self.eval_index(node.slice, s, fn):
                if k2 == "raise":
                    out.append((k2, idx, s2))
                    continue
                out.extend(self.subscript(base, idx, s2))
        return out

    def subscript(self, base, idx, st):
        if isinstance(base, Const) and isinstance(base.v, dict):
            key = idx.v if isinstance(idx, Const) else self.concrete(idx)
            if key is None and not (isinstance(idx, Const) and idx.v is None):
                raise Unsupported("symbolic key into a constant dict")
            if key in base.v:
                return [("val", Const(base.v[key]), st)]
            return [("raise", Const(KeyError), st)]
        if isinstance(base, Opaque) and base.what == "most_common" and isinstance(idx, tuple) and idx and idx[0] == "slice":
            return [("val", Opaque("slice-of-most_common"), st)]  # a list derived from an earlier answer
        if isinstance(base, Opaque) and base.what == "tuple-of-unknown-length":
            s2 = st.fork()
            return [("val", Opaque("element"), st), ("raise", Const(IndexError), s2)]
        if isinstance(base, dict):
            key = idx.v if isinstance(idx, Const) else self.concrete(idx)
            if key in base:
                return [("val", base[key], st)]
            return [("raise", Const(KeyError), st)]
        if isinstance(base, (list, tuple)):
            if isinstance(idx, tuple) and idx and idx[0] == "slice":
                lo = self.concrete(idx[1]) if idx[1] is not None else None
                hi = self.concrete(idx[2]) if idx[2] is not None else None
                return [("val", base[lo:hi], st)]
            i = self.concrete(idx)
            if i is None:
                raise Unsupported("symbolic index into a python sequence")
            try:
                return [("val", base[i], st)]
            except IndexError:
                return [("raise", Const(IndexError), st)]
        if isinstance(base, BufSlice) or (isinstance(base, Ref) and self._clsname(st, base) == "$buf"):
            blk = base if isinstance(base, Ref) else base.block
            off = z3.IntVal(0) if isinstance(base, Ref) else base.start
            if isinstance(idx, tuple) and idx[0] == "slice":
                lo = off + (self.num(idx[1])[0] if idx[1] is not None else 0)
                hi = (off + self.num(idx[2])[0]) if idx[2] is not None else (None if isinstance(base, Ref) else base.stop)
                return [("val", BufSlice(blk, z3.simplify(lo), z3.simplify(hi) if hi is not None else None), st)]
            raise Unsupported("buffer index")
        if isinstance(base, Arr):
            st.effects.append(("arr-load", base, idx))
            if isinstance(idx, tuple) and any(isinstance(i, tuple) and i and i[0] == "slice" for i in idx) or (isinstance(idx, tuple) and idx and idx[0] == "slice"):
                sl = Arr(base.dtype, base.shape[-1:], data=uid("slice"), base=base)
                sl.origin_idx = idx
                return [("val", sl, st)]
            n = len(idx) if isinstance(idx, tuple) else 1
            if n == len(base.shape):
                cidx = [self.concrete(i) if isinstance(i, (Sym, Const)) else None for i in (idx if isinstance(idx, tuple) else (idx,))]
                if all(c is not None for c in cidx):
                    nm = "elem_%s[%s]" % (base.data, ",".join(map(str, cidx)))  # same cell, same term
                else:
                    nm = uid("elem_" + base.data)
                t = z3.Real(nm) if base.dtype.startswith("float") else z3.Int(nm)
                if base.dtype in DT:
                    w, sg = DT[base.dtype]
                    st.pc += [t >= 0, t < (1 << w)]
                e = Sym(t, base.dtype if not base.dtype.startswith("float") else "float")
                e.origin = (base, idx)
                return [("val", e, st)]
            rowv = Arr(base.dtype, base.shape[n:], data=uid("row"), base=base)
            cidx = [self.concrete(i) if isinstance(i, (Sym, Const)) else None for i in (idx if isinstance(idx, tuple) else (idx,))]
            if all(c is not None for c in cidx):
                rowv.data = "row_%s[%s]" % (base.data, ",".join(map(str, cidx)))
            return [("val", rowv, st)]
        if isinstance(base, Ref):
            h = self.hooks.get(("getitem", self._clsname(st, base)))
            if h:
                return h(self, st, base, idx)
        if isinstance(base, Const) and type(base.v).__name__ == "ndarray":
            # module-level constant table indexed by a (possibly symbolic) row: named, uninterpreted
            first = idx[0] if isinstance(idx, tuple) and not (idx and idx[0] == "slice") else idx
            t, _ = self.num(first)
            name = getattr(base, "gname", "table")
            if base.v.ndim == 1:
                v = Sym(z3.Function("TABLE_" + name, z3.IntSort(), z3.RealSort())(t), "float")
                v.origin = ("table", name, z3.simplify(t))
                return [("val", v, st)]
            a = Arr("float64", [z3.IntVal(base.v.shape[1])], data="TABLE_%s[%s]" % (name, z3.simplify(t)))
            a.origin = ("table", name, z3.simplify(t))
            return [("val", a, st)]
        raise Unsupported("subscript of %r" % (base,))

    # ------------------------------------------------------------------ calls
    def e_Call(self, node, st, fn):
        out = []
        for k, f, s in self.eval(node.func, st, fn):
            if k == "raise":
                out.append((k, f, s))
                continue
            for k2, args, s2 in self.eval_many(node.args, s, fn):
                if k2 == "raise":
                    out.append((k2, args, s2))
                    continue
                kwnodes = [kw for kw in node.keywords]
                res = [("val", {}, s2)]
                for kw in kwnodes:
                    nxt = []
                    for k3, d, s3 in res:
                        if k3 == "raise":
                            nxt.append((k3, d, s3))
                            continue
                        for k4, v4, s4 in self.eval(kw.value, s3, fn):
                            if k4 == "raise":
                                nxt.append((k4, v4, s4))
                            elif kw.arg is None:
                                if not isinstance(v4, dict):
                                    raise Unsupported("** of non-dict")
                                nd = dict(d)
                                nd.update(v4)
                                nxt.append(("val", nd, s4))
                            else:
                                nd = dict(d)
                                nd[kw.arg] = v4
                                nxt.append(("val", nd, s4))
                    res = nxt
                for k3, kwargs, s3 in res:
                    if k3 == "raise":
                        out.append((k3, kwargs, s3))
                    else:
                        f3 = f
                        if s3 is not s and isinstance(f, BoundMethod) and isinstance(f.selfref, (list, dict)):
                            # a method of a python container, looked up before the arguments were
                            # evaluated: the argument evaluation forked the state, so the container
                            # is looked up again in the state the call happens in
                            re_ = self.eval(node.func, s3, fn)
                            if len(re_) == 1 and re_[0][0] == "val" and re_[0][2] is s3:
                                f3 = re_[0][1]
                        out.extend(self.call(f3, args, kwargs, s3, fn, node))
        return out

    def call(self, f, args, kwargs, st, fn, node=None):
        h = self.hooks.get(("call", self._fname(f)))
        if h:
            r = h(self, st, f, args, kwargs)
            if r is not None:
                return r
        if isinstance(f, Kernel):
            rv = self.kernel_call(f, args, kwargs, st)
            return rv
        if isinstance(f, PyFunc):
            return [("val" if o.kind == "return" else "raise", o.value, o.state) for o in self.call_function(f, args, dict(kwargs), st)]
        if isinstance(f, BoundMethod):
            if isinstance(f.func, Builtin):
                return self.builtin_method(f.func.name, f.selfref, args, kwargs, st)
            a = ([f.selfref] if f.selfref is not None else []) + list(args)
            return [("val" if o.kind == "return" else "raise", o.value, o.state) for o in self.call_function(f.func, a, dict(kwargs), st)]
        if isinstance(f, PyClass):
            return self.instantiate(f, args, kwargs, st)
        if isinstance(f, Builtin):
            return self.builtin(f.name, args, kwargs, st)
        if isinstance(f, Const):
            return self.external(f.v, args, kwargs, st)
        if isinstance(f, Opaque):
            st.effects.append(("opaque-call", f.what, args, kwargs))
            return [("val", Opaque(f.what + "()"), st)]
        raise Unsupported("call of %r" % (f,))

    def _fname(self, f):
        if isinstance(f, Kernel):
            return f.qualname
        if isinstance(f, PyFunc):
            return f.name
        if isinstance(f, BoundMethod):
            return ("%s.%s" % (f.func.cls.name, f.func.name)) if isinstance(f.func, PyFunc) and f.func.cls else getattr(f.func, "name", "?")
        if isinstance(f, PyClass):
            return f.name
        if isinstance(f, Builtin):
            return f.name
        if isinstance(f, Const):
            return getattr(f.v, "__qualname__", getattr(f.v, "__name__", repr(f.v)))
        return "?"

    def instantiate(self, cls, args, kwargs, st):
        ref = st.new_obj(cls)
        init = cls.lookup("__init__")
        if not init:
            return [("val", ref, st)]
        outs = self.call_function(init[0], [ref] + list(args), dict(kwargs), st)
        return [("val", ref, o.state) if o.kind == "return" else ("raise", o.value, o.state) for o in outs]

    def kernel_call(self, k, args, kwargs, st):
        from numba.core import types as nt

        sig = k.disp.signatures[0]
        names = list(k.disp.py_func.__code__.co_varnames[: k.disp.py_func.__code__.co_argcount])
        st.effects.append(("kernel", k.qualname, dict(zip(names, args))))
        rt = k.disp.overloads[sig].signature.return_type
        return [("val", self.fresh_of_type(rt, "ret_" + k.qualname.split(".")[-1], st), st)]

    def fresh_of_type(self, ty, name, st):
        from numba.core import types as nt

        if isinstance(ty, nt.NoneType):
            return Const(None)
        if isinstance(ty, nt.Integer):
            t = z3.Int(uid(name))
            lo, hi = (-(1 << (ty.bitwidth - 1)), (1 << (ty.bitwidth - 1)) - 1) if ty.signed else (0, (1 << ty.bitwidth) - 1)
            st.pc += [t >= lo, t <= hi]
            return Sym(t, str(ty))
        if isinstance(ty, nt.Float):
            return Sym(z3.Real(uid(name)), "float")
        if isinstance(ty, nt.BaseTuple):
            return tuple(self.fresh_of_type(t, name, st) for t in ty.types)
        raise Unsupported("kernel return type %s" % ty)

    # numpy scalar constructor
    def np_scalar(self, dtype, v, st):
        if dtype.startswith("float"):
            t, isr = self.num(v)
            t = t if isr else z3.ToReal(t)
            if dtype == "float32":
                t = z3.Function("FLOAT32", z3.RealSort(), z3.RealSort())(t)  # rounding to 24 bits: not the identity
            return [("val", Sym(t, "float"), st)]
        w, sg = DT[dtype]
        lo, hi = (-(1 << (w - 1)), (1 << (w - 1)) - 1) if sg else (0, (1 << w) - 1)
        t, isr = self.num(v)
        if isr:
            # numpy truncates a float toward zero when converting to an integer type
            ti = z3.If(t >= 0, z3.ToInt(t), -z3.ToInt(-t))
            t = ti
        src = v.dtype if isinstance(v, Sym) else "int"
        out = []
        inr = z3.And(t >= lo, t <= hi)
        for cond, s2 in self.branch(Sym(inr, "bool"), st):
            if cond:
                out.append(("val", Sym(z3.simplify(t), dtype), s2))
            elif src in ("int", "float", "bool"):
                out.append(("raise", Const(OverflowError), s2))  # NumPy 2: python int out of bounds
            else:
                out.append(("val", Sym(z3.simplify((t - lo) % (1 << w) + lo), dtype), s2))  # numpy -> numpy wraps
        return out

    def external(self, f, args, kwargs, st):
        import numpy as np

        name = getattr(f, "__name__", None)
        if isinstance(f, type) and issubclass(f, BaseException):
            ref = st.new_obj("$exc", {"$type": f, "args": tuple(args)})
            return [("val", ref, st)]
        if isinstance(f, type) and issubclass(f, np.generic) and f.__name__ in list(DT) + ["float64", "float32"]:
            return self.np_scalar(f.__name__, args[0], st)
        h = self.hooks.get(("external", name))
        if h:
            r = h(self, st, f, args, kwargs)
            if r is not None:
                return r
        if f is np.zeros:
            shape = args[0]
            dt = self.dtype_name(args[1] if len(args) > 1 else kwargs.get("dtype", Const(np.float64)))
            shp = [self.num(x)[0] for x in (shape if isinstance(shape, (tuple, list)) else [shape])]
            a = Arr(dt, shp, data=uid("zeros"))  # a fresh allocation: its cells are its own
            return [("val", a, st)]
        if f is np.frombuffer:
            buf = args[0]
            dt = self.dtype_name(args[1] if len(args) > 1 else kwargs.get("dtype"))
            if isinstance(buf, Ref):
                buf = BufSlice(buf, z3.IntVal(0), None)
            if not isinstance(buf, BufSlice):
                raise Unsupported("frombuffer of %r" % (buf,))
            isz = {"uint8": 1, "uint16": 2, "uint32": 4, "uint64": 8}[dt]
            size = st.objs[buf.block.oid]["fields"].get("size")
            stop = buf.stop if buf.stop is not None else (size.t if isinstance(size, Sym) else None)
            if stop is None:
                n = z3.Int(uid("buflen"))
                st.pc.append(n >= 0)
            else:
                n = z3.simplify(stop - buf.start)
            a = Arr(dt, [n / isz if isz > 1 else n], buf=(buf.block.oid, buf.start, stop), data="shm:%s@%s" % (buf.block.oid, z3.simplify(buf.start)))  # cells are named by block and offset
            a.nbytes_total = n
            st.effects.append(("frombuffer", a, isz))
            return [("val", a, st)]
        if f is np.array:
            dt = self.dtype_name(args[1] if len(args) > 1 else kwargs.get("dtype", Const(None)), allow_none=True)
            elems = list(args[0]) if isinstance(args[0], (list, tuple)) else None
            if elems is None:
                raise Unsupported("np.array of non-list")
            a = Arr(dt or "infer", [z3.IntVal(len(elems))], data=uid("nparray"))
            a.elems = elems
            return [("val", a, st)]
        if name in ("require", "ascontiguousarray", "asarray", "array") and f in (np.require, np.ascontiguousarray, np.asarray) and isinstance(args[0], Arr):
            # may return its argument or a *copy* (alignment / layout / dtype dependent): both explored
            src = args[0]
            cp = Arr(src.dtype, src.shape, buf=None, data=uid("copy_of_" + src.data))
            s2 = st.fork()
            s2.effects.append(("array-copied", src, cp))
            return [("val", src, st), ("val", cp, s2)]
        if f is np.copyto:
            st.effects.append(("copyto", args[0], args[1]))
            return [("val", Const(None), st)]
        if f is np.savez:
            st.effects.append(("savez", args[0], dict(kwargs)))
            return [("val", Const(None), st)]
        if f is np.load:
            ref = st.new_obj("$npz", {"file": args[0]})
            st.effects.append(("np.load", ref.oid))
            return [("val", ref, st)]
        if name in ("isclose", "allclose") and len(args) >= 2:
            # approximate equality: an uninterpreted relation that is reflexive (nothing else is known)
            try:
                x, xr = self.num(args[0])
                y, yr = self.num(args[1])
            except Unsupported:
                return [("val", Sym(z3.Bool(uid("isclose")), "bool"), st)]
            x = z3.ToReal(x) if z3.is_int(x) else x
            y = z3.ToReal(y) if z3.is_int(y) else y
            rel = z3.Function("ISCLOSE", z3.RealSort(), z3.RealSort(), z3.BoolSort())
            st.pc.append(z3.Implies(x == y, rel(x, y)))
            return [("val", Sym(rel(x, y), "bool"), st)]
        if name in ("iinfo", "finfo") and len(args) == 1 and not kwargs:
            # machine limits of a concrete dtype: asked from numpy itself
            try:
                return [("val", Const(getattr(np, name)(np.dtype(self.dtype_name(args[0])))), st)]
            except (TypeError, ValueError, Unsupported):
                raise Unsupported("np.%s on a non-dtype argument" % name)
        if name == "can_cast" and len(args) >= 2 and kwargs.get("casting") is None and len(args) == 2:
            # decided by numpy itself on the two (concrete) dtypes
            try:
                return [("val", Const(bool(np.can_cast(np.dtype(self.dtype_name(args[0])), np.dtype(self.dtype_name(args[1]))))), st)]
            except (TypeError, Unsupported):
                raise Unsupported("np.can_cast on non-dtype arguments")
        if name in ("add", "subtract", "maximum", "minimum", "multiply", "bitwise_or") and any(isinstance(x, Arr) for x in args):
            # a NumPy ufunc on arrays: with out= it stores into that array, otherwise a fresh array
            outv = kwargs.get("out", args[2] if len(args) > 2 else None)
            src = [x for x in args if isinstance(x, Arr)][0]
            if isinstance(outv, Arr):
                st.effects.append(("arr-store", outv, ("ufunc", name)))
                return [("val", outv, st)]
            return [("val", Arr(src.dtype, src.shape, data=uid("ufunc_" + name)), st)]
        if name in ("ZipFile", "open", "fdopen", "NamedTemporaryFile", "TemporaryFile"):
            # a file is opened by the code itself: recorded; the handle is opaque
            st.effects.append(("file-open", name, tuple(args), dict(kwargs)))
            return [("val", Opaque("file:" + name), st)]
        if name == "Path":
            r = Opaque("Path")
            r.src = args[0] if args else None
            return [("val", r, st)]
        if name in ("sleep", "collect"):
            st.effects.append((name,))
            return [("val", Const(None), st)]
        if f is np.random.default_rng:
            return [("val", st.new_obj("$rng"), st)]
        raise Unsupported("external call %s" % (name or f,))

    def dtype_name(self, v, allow_none=False):
        import numpy as np

        if isinstance(v, Const):
            if v.v is None and allow_none:
                return None
            if isinstance(v.v, type) and issubclass(v.v, np.generic):
                return v.v.__name__
            if isinstance(v.v, str) and v.v.startswith("dtype:"):
                return v.v[6:]
        raise Unsupported("dtype %r" % (v,))

    def builtin(self, name, args, kwargs, st):
        if name == "isinstance":
            return [("val", Const(self.isinstance(args[0], args[1], st)), st)]
        if name in ("min", "max"):
            vals = args if len(args) > 1 else list(args[0])
            acc = vals[0]
            for v in vals[1:]:
                x, xr = self.num(acc)
                y, yr = self.num(v)
                if xr or yr:
                    raise Unsupported("min/max on reals")
                c = (y < x) if name == "min" else (y > x)
                dt = self.result_dtype(acc, v, False)
                # numpy: min(python int, np.uint32) keeps whichever object is smaller; value semantics suffice
                acc = Sym(z3.simplify(z3.If(c, y, x)), dt)
            return [("val", acc, st)]
        if name == "int":
            v = args[0]
            t, isr = self.num(v)
            if isr:
                t = z3.If(t >= 0, z3.ToInt(t), -z3.ToInt(-t))
            return [("val", Sym(z3.simplify(t), "int"), st)]
        if name == "float":
            t, isr = self.num(args[0])
            return [("val", Sym(t if isr else z3.ToReal(t), "float"), st)]
        if name == "len":
            v = args[0]
            if isinstance(v, (list, tuple, dict)):
                return [("val", Const(len(v)), st)]
            if isinstance(v, Const) and isinstance(v.v, (bytes, str, list, tuple)):
                return [("val", Const(len(v.v)), st)]
            if isinstance(v, Sym) and v.dtype == "bytes":
                return [("val", Sym(BYTESLEN(v.t), "int"), st)]
            if isinstance(v, Ref):
                h = self.hooks.get(("len", self._clsname(st, v)))
                if h:
                    return h(self, st, v)
            raise Unsupported("len of %r" % (v,))
        if name == "range":
            c = [self.concrete(a) for a in args]
            if any(x is None for x in c):
                sym = st.new_obj("$symrange", {"args": tuple(args)})
                return [("val", sym, st)]
            return [("val", [Const(i) for i in range(*c)], st)]
        if name == "iter" and len(args) == 1:
            v = args[0]
            if isinstance(v, Ref) and self._clsname(st, v) == "$generator":
                return [("val", v, st)]  # iter(it) is it
            if isinstance(v, (list, tuple)):
                return [("val", st.new_obj("$generator", {"items": tuple(v)}), st)]  # a fresh iterator over the sequence
            raise Unsupported("iter() of %r" % (v,))
        if name == "next" and args:
            v = args[0]
            if isinstance(v, Ref) and self._clsname(st, v) == "$generator" and "items" in st.objs[v.oid]["fields"]:
                f = st.objs[v.oid]["fields"]
                if f["items"]:
                    first, f["items"] = f["items"][0], tuple(f["items"][1:])
                    return [("val", first, st)]
                if len(args) > 1:
                    return [("val", args[1], st)]
                return [("raise", Const(StopIteration), st)]
            raise Unsupported("next() of %r" % (v,))
        if name == "enumerate":
            items = self.iter_items(args[0], st)
            return [("val", [(Const(i), x) for i, x in enumerate(items)], st)]
        if name == "tuple":
            return [("val", tuple(self.iter_items(args[0], st)) if args else (), st)]
        if name == "list":
            return [("val", list(self.iter_items(args[0], st)) if args else [], st)]
        if name == "dict":
            return [("val", dict(kwargs), st)]
        if name == "str":
            return [("val", Const("<str>"), st)]
        if name == "bytes":
            src = args[0]
            oi = getattr(src, "origin_idx", None)
            lead = [self.concrete(i) for i in oi[:-1]] if isinstance(oi, tuple) and len(oi) >= 2 and all(isinstance(i, (Sym, Const)) for i in oi[:-1]) else None
            t = None
            if lead is not None and all(c is not None for c in lead) and isinstance(src, Arr) and src.base is not None:
                sl = oi[-1]
                if isinstance(sl, tuple) and sl and sl[0] == "slice" and (sl[1] is None or self.concrete(sl[1]) == 0) and sl[2] is not None:
                    # the byte string stored in that cell, cut at the given length: CELLKEY(row.., length)
                    t = cellkey(src.base.data, lead, self.num(sl[2])[0])
            if t is None:
                t = z3.Int(uid("bytes"))
            v = Sym(t, "bytes")
            v.origin = ("bytes", src)
            return [("val", v, st)]
        if name == "type":
            return [("val", Opaque("type"), st)]  # only ever formatted / named in this code base
        if name == "bool":
            t = self.truth(args[0])
            return [("val", Const(t) if isinstance(t, bool) else Sym(t, "bool"), st)]
        if name == "zip":
            seqs = [self.iter_items(a, st) for a in args]
            return [("val", [tuple(x) for x in zip(*seqs)], st)]
        raise Unsupported("builtin %s" % name)

    def isinstance(self, v, cls, st):
        import numpy as np
        import typing

        if isinstance(cls, tuple):
            return any(self.isinstance(v, c, st) for c in cls)
        if isinstance(cls, PyClass):
            if isinstance(v, Ref):
                c = st.objs[v.oid]["cls"]
                return isinstance(c, PyClass) and cls.name in c.mro_names()
            return False
        c = cls.v if isinstance(cls, Const) else None
        if isinstance(cls, Builtin):
            import builtins

            c = getattr(builtins, cls.name, None)
        if c is None:
            raise Unsupported("isinstance class %r" % (cls,))
        if c in (typing.Dict, dict) or getattr(c, "__origin__", None) is dict:
            if isinstance(v, Ref) and self._clsname(st, v) in ("$dict", "$list", "$counter"):
                return self._clsname(st, v) in ("$dict", "$counter")
            return isinstance(v, dict)
        if c in (list, typing.List):
            return isinstance(v, list) or (isinstance(v, Ref) and self._clsname(st, v) == "$list")
        if c is bool:
            return (isinstance(v, Const) and isinstance(v.v, bool)) or (isinstance(v, Sym) and v.dtype == "bool")
        if c is int:
            return (isinstance(v, Const) and isinstance(v.v, int) and not isinstance(v.v, bool)) or (isinstance(v, Sym) and v.dtype == "int")
        if c is float:
            return (isinstance(v, Const) and isinstance(v.v, float)) or (isinstance(v, Sym) and v.dtype in ("float", "pyfloat"))
        if isinstance(c, type) and issubclass(c, np.generic):
            n = c.__name__
            if isinstance(v, Sym):
                if n in ("float64",):
                    return v.dtype == "float"
                return v.dtype == n
            return False
        raise Unsupported("isinstance(%r, %r)" % (v, c))

    def builtin_method(self, name, selfv, args, kwargs, st):
        if name == "py.items" and isinstance(selfv, dict):
            return [("val", [(Const(k) if not isinstance(k, (Const, Sym)) else k, v) for k, v in selfv.items()], st)]
        if name == "py.append":
            selfv.append(args[0])
            return [("val", Const(None), st)]
        if name == "py.pop" and isinstance(selfv, dict) and args:
            key = args[0].v if isinstance(args[0], Const) else self.concrete(args[0])
            if key in selfv:
                return [("val", selfv.pop(key), st)]
            if len(args) > 1:
                return [("val", args[1], st)]
            return [("raise", Const(KeyError), st)]
        if name == "py.get":
            key = args[0].v if isinstance(args[0], Const) else self.concrete(args[0])
            return [("val", selfv.get(key, args[1] if len(args) > 1 else Const(None)), st)]
        if name == "arr.reshape":
            arr = selfv
            shp = args[0] if len(args) == 1 and isinstance(args[0], (tuple, list)) else args
            shape = [self.num(x)[0] for x in shp]
            a = Arr(arr.dtype, shape, buf=arr.buf, data=arr.data, base=arr)
            a.nbytes_total = getattr(arr, "nbytes_total", None)
            st.effects.append(("reshape", arr, a))
            return [("val", a, st)]
        if name == "arr.astype":
            src = selfv
            dt = self.dtype_name(args[0])
            a2 = Arr(dt, src.shape, data=uid("astype_" + src.data))
            a2.conv = (src, dt)
            return [("val", a2, st)]
        if name in ("arr.max", "arr.min"):
            src = selfv
            m = z3.Int(uid(name.split(".")[1] + "_" + src.data))
            idx = [z3.Int(uid("qi")) for _ in src.shape]
            rng = z3.And(*[z3.And(i >= 0, i < n) for i, n in zip(idx, src.shape)])
            c = src.content(idx)
            st.pc.append(z3.ForAll(idx, z3.Implies(rng, (c <= m) if name == "arr.max" else (c >= m)), patterns=[c]))
            if src.dtype in DT:
                w, sg = DT[src.dtype]
                st.pc += [m >= 0, m < (1 << w)]
            return [("val", Sym(m, src.dtype if src.dtype in DT else "int"), st)]
        if name == "arr.copy":
            return [("val", Arr(selfv.dtype, selfv.shape, buf=None, data=uid("copy_of_" + selfv.data)), st)]
        if name in ("arr.any", "arr.all") and not args and not kwargs:
            # a named predicate of the array's contents (same array value, same term): nothing else
            # is known about it, so both outcomes are explored
            nm = "%s_%s" % (name.split(".")[1], selfv.data)
            if not (selfv.data.startswith("row_") or selfv.data.startswith("zeros") or selfv.data.startswith("shm:")):
                nm = uid(nm)
            return [("val", Sym(z3.Bool(nm), "bool"), st)]
        if name == "arr.tobytes":
            t = z3.Int("rowbytes_" + selfv.data) if isinstance(selfv, Arr) and selfv.data.startswith("row_") else z3.Int(uid("bytes"))
            v = Sym(t, "bytes")
            v.origin = ("bytes", selfv)
            return [("val", v, st)]
        raise Unsupported("method %s" % name)


def cellkey(data, lead, hi):
    f = z3.Function("CELLKEY_%s" % data, *([z3.IntSort()] * (len(lead) + 2)))
    return f(*([z3.IntVal(i) for i in lead] + [hi]))


POW2 = z3.Function("POW2", z3.IntSort(), z3.IntSort())
BYTESLEN = z3.Function("BYTESLEN", z3.IntSort(), z3.IntSort())
