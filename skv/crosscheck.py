"""Encoder self-validation: interpret a kernel's typed IR through the *same* primitive table on
concrete inputs (Engine in unroll mode; callees are interpreted recursively from their own IR)
and compare with what the real jitted function returns / leaves in its arrays.
A mismatch is an engine fault (exit 3), never a property violation."""
import copy

import numpy as np
import z3

from .contract import REGISTRY
from .engine import Engine, Sc, TupleV, ArrV, NONE, InterpRaise, Unsupported, as_py
from .extract import typed_ir


def _to_py(v):
    if v is NONE or v is None:
        return None
    if isinstance(v, Sc):
        c = as_py(v.t)
        if c is None:
            raise Unsupported("interpreter produced a non-numeral %s" % v.t)
        if hasattr(c, "numerator") and not isinstance(c, (int, bool)):
            return float(c)
        return c
    if isinstance(v, TupleV):
        return tuple(_to_py(x) for x in v.items)
    raise Unsupported("result kind %s" % type(v).__name__)


def interpret(disp, args):
    """-> ('return', value, [arrays after]) or ('raise', excname, None)"""
    tir = typed_ir(disp)
    eng = Engine(tir, None, REGISTRY, unroll=True, concrete_args=list(args))
    try:
        eng.run()
    except InterpRaise as e:
        return ("raise", str(e), None)
    res = [r for r in eng.results if r[0] in ("return", "raise", "obligation-failed")]
    bad = [r for r in res if r[0] == "obligation-failed"]
    if bad:
        return ("ub", bad[0][1], None)
    if len(res) != 1:
        raise Unsupported("interpreter finished with %d results" % len(res))
    kind, val, path = res[0]
    if kind == "raise":
        return ("raise", getattr(val, "__name__", str(val)), None)
    arrays = []
    for a, conc in zip(eng.argvals.values(), args):
        if isinstance(a, ArrV):
            src = np.asarray(conc)
            out = np.zeros_like(src)
            for idx in np.ndindex(*src.shape):
                t = a.sel(path.heap, tuple(eng.sem.idx_const(int(i)) for i in idx), None)
                c = as_py(t)
                out[idx] = float(c) if src.dtype.kind == "f" else c
            arrays.append(out)
        else:
            arrays.append(None)
    return ("return", _to_py(val), arrays)


def crosscheck(chk, disp, cases, name):
    """cases: list of argument tuples. Arrays are copied before each run."""
    for args in cases:
        a1 = [copy.deepcopy(x) for x in args]
        a2 = [copy.deepcopy(x) for x in args]
        try:
            real = disp(*a1)
            real_kind = "return"
        except Exception as e:  # the real kernel raised
            real, real_kind = type(e).__name__, "raise"
        try:
            kind, val, arrays = interpret(disp, a2)
        except Unsupported as e:
            chk.notes.append("encoder cross-check skipped for %s: unsupported construct (%s)" % (name, e))
            return True
        chk.crosscheck["cases"] += 1
        ok = kind == real_kind
        if ok and kind == "return":
            rv = real
            if isinstance(rv, tuple):
                rv = tuple(float(x) if isinstance(x, float) else int(x) for x in rv)
            elif rv is not None:
                rv = float(rv) if isinstance(rv, float) else int(rv)
            if isinstance(rv, float) or (isinstance(rv, tuple) and any(isinstance(x, float) for x in rv)):
                ok = np.allclose(np.array(rv, dtype=float), np.array(val, dtype=float), rtol=1e-9, atol=0)
            else:
                ok = rv == val
            for after, mine in zip(a1, arrays):
                if mine is not None and not np.array_equal(np.asarray(after), mine):
                    ok = False
        if not ok and kind == "ub":
            # the interpreter hit a safety obligation that is false for this concrete input (an
            # out-of-bounds read, a wrapping store, ...) while the real function carried on: that is
            # the code's undefined behaviour on a legal input, not an encoder fault
            chk.violation("%s:safety-on-a-concrete-input" % name, {"verdict": "refuted", "detail": "safety obligation %s is false on this input" % (val,)}, {"key": "%s%r" % (name, tuple(a if not isinstance(a, np.ndarray) else "array" for a in args)), "function": name, "observed": "the real function returned %r although %s is violated" % (real, val), "expected": "no undefined behaviour", "how": "concrete interpretation of the typed IR next to the real function"})
            return False
        if not ok:
            chk.crosscheck["mismatches"] += 1
            chk.errors.append(
                "encoder cross-check mismatch for %s on %r: real=%r/%r engine=%r/%r" % (name, args, real_kind, real, kind, val)
            )
            return False
    return True
