"""Front end A, step 2: symbolic executor over Numba typed IR -> verification conditions.

* paths are explored from the function entry; every branch forks;
* loop headers are cut points: on the entry edge the contract's invariant is an obligation
  ("init"), the loop-modified scalars / arrays / iterator are havoc'ed and the invariant assumed;
  on a back edge the invariant is an obligation ("preserve") and the path ends;
* a call of another kernel uses the callee's *contract* (requires -> obligations, modifies ->
  havoc, ensures -> assumptions), never its body;
* every getitem/setitem/division/shift/signed-arithmetic generates a safety obligation;
* `unroll=True` turns the executor into a concrete interpreter of the same primitive table
  (used for the encoder cross-check against the real jitted function).

Arrays are *functions*: a heap cell holds an immutable python object whose `sel(idx, facts)`
returns a term; stores build a new object.  Base arrays are uninterpreted functions (symbolic
shape) or explicit cells (concrete small shape, quantifier-free: used to obtain models).
"""
import itertools
import operator
import time

import numpy as np
import z3
from numba.core import ir as nir
from numba.core import types as nt
from numba.core.analysis import compute_cfg_from_blocks
from numba.misc.special import prange as nb_prange

from . import sem as S
from .sem import Sc, Unsupported, INT, BV, unlit, is_int, is_float, is_bool, as_py

_uid = itertools.count()


def uid(prefix):
    return "%s!%d" % (prefix, next(_uid))


# --------------------------------------------------------------------------------------
# heap arrays (persistent / immutable)
# --------------------------------------------------------------------------------------
class HeapArr:
    ndim = 1

    def sel(self, idx, facts):
        raise NotImplementedError


class BaseArr(HeapArr):
    """fresh unknown contents: uninterpreted function over the index sort"""

    def __init__(self, sem, name, ndim, dtype):
        self.sem, self.name, self.ndim, self.dtype = sem, name, ndim, unlit(dtype)
        self.uf = z3.Function(name, *([sem.idx_sort()] * ndim + [sem.sort(dtype)]))

    def sel(self, idx, facts):
        t = self.uf(*idx)
        if facts is not None:
            facts.extend(self.sem.range_facts(t, self.dtype))
        return t

    def axioms(self):
        """quantified typing fact (int mode only)"""
        if self.sem.mode != INT or not is_int(self.dtype):
            return []
        vs = [z3.Int("q%d!%s" % (i, self.name)) for i in range(self.ndim)]
        t = self.uf(*vs)
        lo, hi = S.int_range(self.dtype)
        return [z3.ForAll(vs, z3.And(t >= lo, t <= hi), patterns=[t])]


class CellArr(HeapArr):
    """fresh unknown contents of a concrete shape: one constant per cell (quantifier-free)"""

    def __init__(self, sem, name, shape, dtype):
        self.sem, self.name, self.shape, self.dtype = sem, name, tuple(shape), unlit(dtype)
        self.ndim = len(shape)
        self.cells = {}
        for idx in itertools.product(*[range(n) for n in shape]):
            self.cells[idx] = z3.Const("%s[%s]" % (name, ",".join(map(str, idx))), sem.sort(dtype))
        self.default = z3.Const("%s[oob]" % name, sem.sort(dtype))

    def sel(self, idx, facts):
        cidx = [as_py(i) for i in idx]
        if all(c is not None for c in cidx):
            return self.cells.get(tuple(cidx), self.default)
        t = self.default
        for cell, v in self.cells.items():
            cond = z3.And(*[i == self.sem.idx_const(c) for i, c in zip(idx, cell)])
            t = z3.If(cond, v, t)
        return t

    def axioms(self):
        out = []
        for v in list(self.cells.values()) + [self.default]:
            out.extend(self.sem.range_facts(v, self.dtype))
        return out


class FnArr(HeapArr):
    def __init__(self, ndim, fn):
        self.ndim, self.fn = ndim, fn

    def sel(self, idx, facts):
        return self.fn(tuple(idx), facts)


# --------------------------------------------------------------------------------------
# values
# --------------------------------------------------------------------------------------
class ArrV:
    """array view value. imap maps view indices to base (heap) indices."""

    def __init__(self, aid, dtype, shape, imap=None, readonly=False, sel_override=None, owner=None):
        self.aid, self.dtype, self.shape = aid, unlit(dtype), tuple(shape)
        self.ndim = len(self.shape)
        self.imap = imap or (lambda idx: tuple(idx))
        self.readonly = readonly
        self.sel_override = sel_override
        self.owner = owner  # name of the argument this view derives from (frame bookkeeping)

    def sel(self, heap, idx, facts):
        if self.sel_override is not None:
            return self.sel_override(heap, tuple(idx), facts)
        return heap[self.aid].sel(self.imap(tuple(idx)), facts)


class BytesV:
    def __init__(self, aid, off, length, bid, sem, owner=None):
        self.aid, self.off, self.length, self.bid, self.owner = aid, off, length, bid, owner
        self.kid = KID(sem)(bid, off, length)

    def byte(self, heap, j, facts):
        return heap[self.aid].sel((self.off + j,), facts)


class TupleV:
    def __init__(self, items):
        self.items = tuple(items)


class RangeV:
    def __init__(self, start, stop, ty, parallel):
        self.start, self.stop, self.ty, self.parallel = start, stop, unlit(ty), parallel


class IterV:
    def __init__(self, iid, kind, src):
        self.iid, self.kind, self.src = iid, kind, src  # kind: 'range' | 'array'


class PairV:
    def __init__(self, first, second):
        self.first, self.second = first, second


class FuncV:
    def __init__(self, obj):
        self.obj = obj


class SliceV:
    def __init__(self, start, stop):
        self.start, self.stop = start, stop  # Sc (int64) or None


class BoolArrV:
    """result of array == array : elementwise predicate of a given length"""

    def __init__(self, n, pred):
        self.n, self.pred = n, pred


class ExcV:
    def __init__(self, cls):
        self.cls = cls


NONE = object()


# --------------------------------------------------------------------------------------
# quantifier helper: expands over concrete bounds, else ForAll with bounds as antecedent
# --------------------------------------------------------------------------------------
def forall(sem, bounds, body, name="q"):
    """bounds: list of (lo, hi) index-sort terms (hi exclusive); body: fn(*vars) -> Bool"""
    conc = []
    for lo, hi in bounds:
        l, h = as_py(lo) if not isinstance(lo, int) else lo, as_py(hi) if not isinstance(hi, int) else hi
        conc.append((l, h))
    if all(l is not None and h is not None and h - l <= 64 for l, h in conc):
        outs = []
        for idx in itertools.product(*[range(l, h) for l, h in conc]):
            outs.append(body(*[sem.idx_const(i) for i in idx]))
        return z3.And(*outs) if outs else z3.BoolVal(True)
    vs = [z3.Const(uid(name), sem.idx_sort()) for _ in bounds]
    ante = []
    for v, (lo, hi) in zip(vs, bounds):
        lo = sem.idx_const(lo) if isinstance(lo, int) else lo
        hi = sem.idx_const(hi) if isinstance(hi, int) else hi
        if sem.mode == INT:
            ante += [v >= lo, v < hi]
        else:
            ante += [z3.UGE(v, lo), z3.ULT(v, hi)]
    return z3.ForAll(vs, z3.Implies(z3.And(*ante), body(*vs)))


def exists(sem, bounds, body, name="e"):
    return z3.Not(forall(sem, bounds, lambda *vs: z3.Not(body(*vs)), name))


# --------------------------------------------------------------------------------------
# frames handed to contract clauses
# --------------------------------------------------------------------------------------
class ArrAcc:
    def __init__(self, heap, arrv, sem=None):
        self._heap, self._v, self._sem = heap, arrv, sem
        self.shape = arrv.shape
        self.tag = z3.Const("tag_" + str(arrv.aid), sem.idx_sort()) if sem is not None else None

    def __call__(self, *idx):
        if self._sem is not None:
            idx = tuple(self._sem.idx_const(i) if isinstance(i, int) else i for i in idx)
        return self._v.sel(self._heap, idx, None)


class BytesAcc:
    def __init__(self, heap, bv):
        self._heap, self._v = heap, bv
        self.len = bv.length
        self.kid = bv.kid
        self.off = bv.off

    def __call__(self, j):
        return self._v.byte(self._heap, j, None)

    def slice_kid(self, sem, start, n):
        return KID(sem)(self._v.bid, self._v.off + start, n)


class NS:
    pass


class Frame:
    """what a contract clause sees.  F.<scalar arg> -> term; F.<array arg> -> ArrAcc over the
    *pre* heap (also F.pre.<arr>); F.post.<arr>; F.res (term or tuple of terms); F.sem"""

    def __init__(self, sem, argvals, pre_heap, post_heap=None, res=None):
        self.sem = sem
        self.pre, self.post = NS(), NS()
        self.names = list(argvals)
        self.argvals = argvals
        for n, v in argvals.items():
            if isinstance(v, Sc):
                setattr(self, n, v.t)
            elif isinstance(v, ArrV):
                setattr(self.pre, n, ArrAcc(pre_heap, v, sem))
                setattr(self, n, getattr(self.pre, n))
                if post_heap is not None:
                    setattr(self.post, n, ArrAcc(post_heap, v, sem))
            elif isinstance(v, BytesV):
                setattr(self, n, BytesAcc(pre_heap, v))
            else:
                setattr(self, n, v)
        if isinstance(res, Sc):
            self.res = res.t
        elif isinstance(res, TupleV):
            self.res = tuple(x.t if isinstance(x, Sc) else x for x in res.items)
        else:
            self.res = res

    def wide(self, name, bits=64):
        """bit-vector mode: the argument as a `bits`-wide value of its own declared type (sign- or
        zero-extended), so that a contract written over 64-bit values still type-checks - and says
        what the function computes - when a parameter type in the decorator is changed"""
        v = self.argvals[name]
        t = v.t
        if not z3.is_bv(t) or t.size() == bits:
            return t
        if t.size() > bits:
            return z3.Extract(bits - 1, 0, t)
        signed = getattr(v.ty, "signed", False)
        return z3.SignExt(bits - t.size(), t) if signed else z3.ZeroExt(bits - t.size(), t)

    # proof-side helpers; at call sites and in lemmas they have nothing to offer
    def local(self, name, default=None):
        return default

    def loop_k(self, ordinal):
        return None

    def locals(self, name):
        return []

    def forall(self, bounds, body):
        return forall(self.sem, bounds, body)

    def exists(self, bounds, body):
        return exists(self.sem, bounds, body)


class LoopCtx:
    """what a loop-invariant clause sees in addition to F."""

    def __init__(self, k, n, varfn, cur, entry, extra=None):
        self.k, self.n, self._varfn, self.cur, self.entry = k, n, varfn, cur, entry
        self.extra = extra or {}

    def var(self, name):
        return self._varfn(name)


# --------------------------------------------------------------------------------------
# obligations
# --------------------------------------------------------------------------------------
class Obligation:
    __slots__ = ("func", "kind", "clause", "hyps", "goal", "path", "loc", "result", "seconds", "model", "reason", "backend", "shape", "units")

    def __init__(self, func, kind, clause, hyps, goal, path, loc):
        self.func, self.kind, self.clause = func, kind, clause
        self.hyps, self.goal, self.path, self.loc = list(hyps), goal, path, loc
        self.result = None
        self.seconds = 0.0
        self.model = None
        self.reason = ""
        self.backend = ""
        self.shape = None
        self.units = 0

    @property
    def name(self):
        return "%s:%s:%s" % (self.func, self.kind, self.clause)

    def __repr__(self):
        return "<%s @p%s %s>" % (self.name, self.path, self.result)


class Path:
    def __init__(self):
        self.env = {}
        self.heap = {}
        self.iters = {}
        self.pc = []
        self.loops = []  # stack of (header label, LoopInfo, k term)
        self.trace = []
        self.pid = 0
        self.par = None  # (iid) of an enclosing prange loop
        self.last = {}  # source variable name -> most recently assigned IR version on this path
        self.versions = ()  # (source name, IR version) in order of assignment on this path
        self.calls = ()  # kernel calls made on this path: (callee qualname, {param: value}, result)
        self.calls_mark = 0  # index into calls at the innermost loop header
        self.exit_k = {}  # loop ordinal -> iteration count at exit (loops left through the header)

    def fork(self):
        p = Path()
        p.env = dict(self.env)
        p.heap = dict(self.heap)
        p.iters = dict(self.iters)
        p.pc = list(self.pc)
        p.loops = list(self.loops)
        p.trace = list(self.trace)
        p.par = self.par
        p.last = dict(self.last)
        p.exit_k = dict(self.exit_k)
        p.versions = self.versions
        p.calls = self.calls
        p.calls_mark = self.calls_mark
        p.header_env = getattr(self, "header_env", {})
        p.header_k = getattr(self, "header_k", None)
        p.header_heap = getattr(self, "header_heap", {})
        return p


FLOAT_SAFETY = ("fptoint-in-range", "log-positive", "float-div-nonzero")


class PathEnd(Exception):
    pass


_KID = {}


def KID(sem):
    """identity of a byte string as an opaque value: KID(buffer id, offset, length)"""
    if sem.mode not in _KID:
        s = sem.idx_sort()
        _KID[sem.mode] = z3.Function("KID_" + sem.mode, s, s, s, s)
    return _KID[sem.mode]


class Engine:
    MAX_PATHS = 4000
    MAX_UNROLL = 100000

    def __init__(self, tir, contract, registry, unroll=False, concrete_args=None, fixed=None):
        """tir: TypedIR; contract: contract object or None (unroll mode);
        registry: name -> contract for callees; fixed: {argname: int} scalar args pinned to
        constants (concrete-shape mode); concrete_args: python values (unroll mode)."""
        self.tir = tir
        self.contract = contract
        self.registry = registry
        self.sem = S.Sem(contract.mode if contract is not None else tir_mode(tir, registry))
        self.unroll = unroll  # no loop cut points: loops are executed (bounds must become concrete)
        self.interp = unroll and concrete_args is not None  # concrete interpreter (encoder cross-check)
        self.fixed = fixed or {}
        self.concrete_args = concrete_args
        self.blocks = tir.blocks
        self.typemap = tir.typemap
        self.calltypes = tir.calltypes
        self.fname = tir.qualname
        self.obligations = []
        self.paths_done = 0
        self.results = []  # unroll mode: ('return', value, path) / ('raise', cls, path)
        self.cfg = compute_cfg_from_blocks(self.blocks)
        self.loops = {}
        for i, (hdr, lp) in enumerate(sorted(self.cfg.loops().items())):
            self.loops[hdr] = LoopInfo(i, hdr, lp, self.blocks)
        self.entry_frame = None
        self.assumed = []  # names of assumed facts (callee ensures, definitional axioms)
        self.unsupported = None
        self.hints = []
        self.float_safety = getattr(contract, "float_safety", False)
        self.clause_filter = None  # fn(contract name, clause name) -> bool : restrict to a property's cone
        self.inline = False  # executing a callee that has no contract inside its caller's proof

    # ------------------------------------------------------------------ entry
    def run(self):
        p = Path()
        self._bind_args(p)
        self.ghosts = NS()
        if self.contract is not None:
            F = self._frame(p.heap)
            for name, f in self.contract.requires(F):
                p.pc.append(f)
            gl = list(self.contract.ghosts(F))
            for gname, sort in gl:
                setattr(self.ghosts, gname, sort(gname + "!g") if callable(sort) else z3.Const(gname + "!g", sort))
            for f in self.contract.ghost_defs(F):
                p.pc.append(f)
        first = min(self.blocks)
        self._explore([(first, p)])
        return self.obligations

    def _bind_args(self, p):
        sem = self.sem
        self.argvals = {}
        for i, (name, ty) in enumerate(zip(self.tir.arg_names, self.tir.sig)):
            ty = unlit(ty)
            conc = None if self.concrete_args is None else self.concrete_args[i]
            if isinstance(ty, nt.Bytes):
                v = self._new_bytes(p, name, conc)
            elif isinstance(ty, nt.Array):
                v = self._new_array_arg(p, name, ty, conc)
            elif is_int(ty) or is_float(ty) or is_bool(ty):
                if conc is not None:
                    v = Sc(_float_to_rat(conc), ty) if is_float(ty) else sem.const(conc, ty)
                elif name in self.fixed:
                    v = sem.const(self.fixed[name], ty)
                else:
                    v, facts = sem.fresh(name, ty)
                    p.pc.extend(facts)
            else:
                raise Unsupported("argument %s of type %s" % (name, ty))
            self.argvals[name] = v
        self.entry_heap = dict(p.heap)

    def _new_bytes(self, p, name, conc):
        sem = self.sem
        aid = uid("bytes_" + name)
        if conc is not None:
            data = bytes(conc)
            vals = [sem.const(b, nt.uint8).t for b in data]
            zero = sem.const(0, nt.uint8).t

            def fn(idx, facts, vals=vals, zero=zero):
                c = as_py(idx[0])
                if c is None:
                    raise Unsupported("symbolic index into concrete bytes")
                return vals[c] if 0 <= c < len(vals) else zero

            p.heap[aid] = FnArr(1, fn)
            ln = sem.idx_const(len(data))
        else:
            fixed_len = self.fixed.get("len(%s)" % name)
            if fixed_len is not None:
                arr = CellArr(sem, name + "_b", (fixed_len,), nt.uint8)
                ln = sem.idx_const(fixed_len)
            else:
                arr = BaseArr(sem, name + "_b", 1, nt.uint8)
                ln = z3.Const("len_" + name, sem.idx_sort())
                if sem.mode == INT:
                    p.pc += [ln >= 0, ln < (1 << 62)]
                else:
                    p.pc += [ln >= 0, ln < z3.BitVecVal(1 << 62, 64)]
            p.heap[aid] = arr
            p.pc.extend(arr.axioms())
        bid = z3.Const("bid_" + name, sem.idx_sort())
        return BytesV(aid, sem.idx_const(0), ln, bid, sem, owner=name)

    def _new_array_arg(self, p, name, ty, conc):
        sem = self.sem
        aid = uid("arr_" + name)
        if conc is not None:
            a = np.asarray(conc)
            shape = [sem.idx_const(n) for n in a.shape]

            def fn(idx, facts, a=a, dt=ty.dtype):
                c = [as_py(i) for i in idx]
                if any(x is None for x in c):
                    raise Unsupported("symbolic index into concrete array")
                if not all(0 <= x < n for x, n in zip(c, a.shape)):
                    return sem.const(0, dt).t
                val = a[tuple(c)]
                if is_float(dt):
                    return _float_to_rat(float(val))
                return sem.const(int(val), dt).t

            p.heap[aid] = FnArr(ty.ndim, fn)
        else:
            fshape = self.fixed.get("shape(%s)" % name)
            if fshape is not None:
                arr = CellArr(sem, name + "0", fshape, ty.dtype)
                shape = [sem.idx_const(n) for n in fshape]
            else:
                arr = BaseArr(sem, name + "0", ty.ndim, ty.dtype)
                shape = [z3.Const("%s_shape%d" % (name, d), sem.idx_sort()) for d in range(ty.ndim)]
                for s_ in shape:
                    p.pc.append(s_ >= 0)
                    if sem.mode == INT:
                        p.pc.append(s_ < (1 << 62))
                    else:
                        p.pc.append(s_ < z3.BitVecVal(1 << 62, 64))
            p.heap[aid] = arr
            p.pc.extend(arr.axioms())
        return ArrV(aid, ty.dtype, shape, owner=name)

    def _clause_ok(self, contract, clause):
        return self.clause_filter is None or self.clause_filter(contract.name, clause)

    def _frame(self, post_heap, res=None):
        F = Frame(self.sem, self.argvals, self.entry_heap, post_heap, res)
        F.g = self.ghosts
        return F

    # ------------------------------------------------------------------ exploration
    def _explore(self, work):
        while work:
            label, p = work.pop()
            if self.paths_done > self.MAX_PATHS:
                raise Unsupported("path explosion (> %d paths)" % self.MAX_PATHS)
            try:
                nxt = self._run_block(label, p)
            except PathEnd:
                self.paths_done += 1
                continue
            work.extend(nxt)

    def _emit(self, kind, clause, p, goal, loc=None):
        if self.interp:
            g = as_py(goal) if not isinstance(goal, bool) else goal
            if g is not True:
                # in interpreter mode an unmet safety obligation means the real code would misbehave
                self.results.append(("obligation-failed", "%s:%s" % (kind, clause), p))
            return
        self.obligations.append(Obligation(self.fname, kind, clause, p.pc, goal, p.pid, loc))

    def _run_block(self, label, p):
        p.trace.append(label)
        # leaving loops?
        while p.loops and label not in p.loops[-1][1].body:
            lp = p.loops.pop()
            if p.par is not None and p.par == lp[3]:
                p.par = None
            if p.trace and len(p.trace) >= 2 and p.trace[-2] == lp[0]:
                # left through the header: the iterator is exhausted, so k == max(n, 0)
                it = self._loop_iter(lp[1], p)
                k, n = p.iters[it.iid], self._iter_len(it, p)
                if self.sem.mode == BV and self._iter_unsigned(it):
                    f = k == n
                else:
                    f = k == z3.If(n >= 0, n, self.sem.idx_const(0))
                self._emit("loop%d-exit" % lp[1].ordinal, "k==n", p, f, lp[0])
                p.pc.append(f)
                p.exit_k[lp[1].ordinal] = k
        blk = self.blocks[label]
        for st in blk.body:
            loc = getattr(st, "loc", None)
            self.cur_loc = loc.line if loc is not None else None
            if isinstance(st, nir.Assign):
                val = self._eval(st.value, st, p)
                if isinstance(val, Sc):
                    tty = unlit(self.typemap[st.target.name])
                    if (is_int(tty) or is_float(tty) or is_bool(tty)) and unlit(val.ty) != tty:
                        val = self.sem.cast(val, tty)  # numba casts on assignment to a unified variable
                p.env[st.target.name] = val
                tn = st.target.name
                if not tn.startswith("$"):
                    p.last[tn.split(".")[0]] = tn
                    p.versions = p.versions + ((tn.split(".")[0], tn),)
            elif isinstance(st, (nir.SetItem, nir.StaticSetItem)):
                self._setitem(st, p)
            elif isinstance(st, nir.Del):
                pass
            elif isinstance(st, nir.Jump):
                return self._goto(st.target, label, p)
            elif isinstance(st, nir.Branch):
                c = p.env[st.cond.name]
                ct = self.sem.truth(c)
                cv = as_py(ct)
                if cv is True:
                    return self._goto(st.truebr, label, p)
                if cv is False:
                    return self._goto(st.falsebr, label, p)
                if self.interp:
                    raise Unsupported("symbolic branch in interpreter mode")
                p2 = p.fork()
                p.pc.append(ct)
                p2.pc.append(z3.Not(ct))
                self._pidc = getattr(self, "_pidc", 0) + 1
                p2.pid = self._pidc
                out = []
                try:
                    out += self._goto(st.falsebr, label, p2)
                except PathEnd:
                    self.paths_done += 1
                try:
                    out += self._goto(st.truebr, label, p)
                except PathEnd:
                    self.paths_done += 1
                if not out:
                    raise PathEnd()
                return out
            elif isinstance(st, nir.Return):
                self._return(p.env[st.value.name], p)
                raise PathEnd()
            elif isinstance(st, (nir.StaticRaise, nir.Raise)):
                cls = st.exc_class if isinstance(st, nir.StaticRaise) else None
                self._raise(cls, p)
                raise PathEnd()
            else:
                raise Unsupported("IR statement %s" % type(st).__name__)
        raise Unsupported("block %s falls through" % label)

    # ------------------------------------------------------------------ loops
    def _goto(self, target, src, p):
        if self.unroll or target not in self.loops:
            if self.unroll:
                self._steps = getattr(self, "_steps", 0) + 1
                if self._steps > self.MAX_UNROLL:
                    raise Unsupported("interpreter step limit")
            return [(target, p)]
        li = self.loops[target]
        back = src in li.body
        if back:
            # preservation: invariant must hold again at the header
            ent = p.loops[-1]
            assert ent[0] == target, "back edge to a loop that is not innermost"
            self._check_inv(li, p, "preserve", ent[2])
            raise PathEnd()
        # entry edge
        self._check_inv(li, p, "init", None)
        self._havoc_loop(li, p)
        return [(target, p)]

    def _loop_iter(self, li, p):
        """the IterV driving loop li (the value iternext is applied to in the header)"""
        hdr = self.blocks[li.header]
        for st in hdr.body:
            if isinstance(st, nir.Assign) and isinstance(st.value, nir.Expr) and st.value.op == "iternext":
                return p.env[st.value.value.name]
        return None

    def _inv_clauses(self, li, p, entry_heap, phase="assume"):
        inv = None if self.contract is None else self.contract.loops.get(li.ordinal)
        it = self._loop_iter(li, p)
        if it is None:
            raise Unsupported("loop %d is not an iterator loop" % li.ordinal)
        k = p.iters[it.iid]
        n = self._iter_len(it, p)
        sem = self.sem
        out = []
        if sem.mode == BV and self._iter_unsigned(it):
            out.append(("iter-bounds", z3.ULE(k, n), False))
        else:
            out.append(("iter-bounds", z3.And(k >= 0, k <= z3.If(n >= 0, n, 0)), False))
        if inv is not None:
            F = self._frame(p.heap)
            cur = NS()
            ent = NS()
            for nme, v in self.argvals.items():
                if isinstance(v, ArrV):
                    setattr(cur, nme, ArrAcc(p.heap, v, sem))
                    setattr(ent, nme, ArrAcc(entry_heap, v, sem))

            def varfn(name, p=p, li=li):
                return self._lookup_source_var(name, p, li)

            L = LoopCtx(k, n, varfn, cur, ent)
            L.path = p
            L.phase = phase
            L.calls = p.calls[p.calls_mark:] if phase == "preserve" else ()
            L.k_header = getattr(p, "header_k", None)
            hdr = NS()
            hh_ = getattr(p, "header_heap", {})
            for nme, v in self.argvals.items():
                if isinstance(v, ArrV) and v.aid in hh_:
                    setattr(hdr, nme, ArrAcc(hh_, v, sem))
            L.header = hdr  # the (havoc'ed) state at the loop head of the iteration just executed

            def llocal(name, p=p):
                vn = p.last.get(name)
                v = p.env.get(vn) if vn is not None else None
                return v.t if isinstance(v, Sc) else None

            L.local = llocal  # latest version of a source variable assigned on this path

            def at_header(name, p=p, li=li):
                he = getattr(p, "header_env", {})
                c = [v for v in he if v == name or v.startswith(name + ".")]
                if len(c) != 1:
                    raise BindingLost("loop variable %r at header: %s" % (name, c))
                v = he[c[0]]
                return v.t if isinstance(v, Sc) else v

            L.at_header = at_header
            for item in inv(F, L):
                if not self._clause_ok(self.contract, item[0]):
                    continue
                if len(item) == 3:
                    out.append(item)
                else:
                    out.append((item[0], item[1], False))
        return out

    def _lookup_source_var(self, name, p, li):
        # prefer a loop-carried version of the source variable, else the plain name
        cands = [v for v in li.carried if v == name or v.startswith(name + ".")]
        cands = [v for v in cands if v in p.env]
        if len(cands) == 1:
            v = p.env[cands[0]]
        elif name in p.env and not cands:
            v = p.env[name]
        elif cands:
            # several versions: take the one that is live at the header (assigned before entry)
            live = [v for v in cands if v in li.live_in]
            if len(live) != 1:
                raise BindingLost("loop variable %r is ambiguous: %s" % (name, cands))
            v = p.env[live[0]]
        else:
            # harmless rename of a local: bind the unique loop-carried scalar source variable that is
            # not the loop's induction variable (ambiguity -> BindingLost -> UNDECIDED, never a violation)
            bases = {}
            for v_ in li.carried:
                if v_.startswith("$") or not isinstance(p.env.get(v_), Sc):
                    continue
                bases.setdefault(v_.split(".")[0], []).append(v_)
            if len(bases) != 1 or len(list(bases.values())[0]) != 1:
                raise BindingLost("loop variable %r not found" % name)
            v = p.env[list(bases.values())[0][0]]
        return v.t if isinstance(v, Sc) else v

    def _check_inv(self, li, p, phase, entry_heap):
        if phase == "init":
            entry_heap = p.heap
        base_pc = p.pc
        extra = []
        for name, f, is_assume in self._inv_clauses(li, p, entry_heap, phase):
            if is_assume:
                extra.append(f)  # definitional instance stated at this point of the proof script
                self.assumed.append("%s:inv%d:%s" % (self.fname, li.ordinal, name))
                continue
            if name.startswith("from-lemmas:"):
                # follows from the lemmas just proved and the quantifier-free facts alone
                name = name[len("from-lemmas:"):]
                p.pc = [h for h in base_pc if not _has_quantifier(h)] + extra
            elif name.startswith("lemma-ground:"):
                # intermediate assertion proved from the quantifier-free hypotheses only (fewer
                # hypotheses = still sound); afterwards a hypothesis for the remaining clauses
                p.pc = [h for h in base_pc + extra if not _has_quantifier(h)]
            else:
                p.pc = base_pc + extra
            self._emit("inv%d-%s" % (li.ordinal, phase), name, p, f, li.header)
            if name.startswith("lemma"):
                extra.append(f)
        p.pc = base_pc

    def _havoc_loop(self, li, p):
        sem = self.sem
        entry_heap = dict(p.heap)
        it = self._loop_iter(li, p)
        # iterator position
        k, facts = sem.fresh(uid("k%d" % li.ordinal), nt.int64)
        p.iters[it.iid] = k.t
        # scalars assigned in the loop
        for v in li.assigned:
            if v not in p.env:
                continue
            old = p.env[v]
            if isinstance(old, Sc):
                nv, facts = sem.fresh(uid(v), old.ty)
                p.env[v] = nv
                p.pc.extend(facts)
        # arrays written in the loop (directly or through callee contracts)
        for aid, av in self._arrays_modified_in(li, p).items():
            conc = [as_py(s_) for s_ in av.shape]
            base_nd = p.heap[aid].ndim
            if all(c is not None for c in conc) and len(conc) == base_nd and av.owner is not None:
                arr = CellArr(sem, uid(av.owner + "_h"), conc, av.dtype)
            else:
                arr = BaseArr(sem, uid((av.owner or "arr") + "_h"), base_nd, av.dtype)
            p.heap[aid] = arr
            p.pc.extend(arr.axioms())
        if it.kind == "range" and it.src.parallel:
            p.par = it.iid
        p.loops.append((li.header, li, entry_heap, it.iid))
        p.calls_mark = len(p.calls)
        p.header_env = {v: p.env[v] for v in li.carried if v in p.env}
        p.header_k = p.iters[it.iid]
        p.header_heap = dict(p.heap)
        for name, f, is_assume in self._inv_clauses(li, p, entry_heap):
            p.pc.append(f)
            if is_assume:
                self.assumed.append("%s:inv%d:%s" % (self.fname, li.ordinal, name))

    def _arrays_modified_in(self, li, p):
        out = {}
        for lbl in li.body:
            for st in self.blocks[lbl].body:
                tgt = None
                if isinstance(st, (nir.SetItem, nir.StaticSetItem)):
                    tgt = [st.target.name]
                elif isinstance(st, nir.Assign) and isinstance(st.value, nir.Expr) and st.value.op == "call":
                    fty = self.typemap[st.value.func.name]
                    if isinstance(fty, nt.Dispatcher):
                        c = self._callee_contract(fty)
                        names = list(fty.dispatcher.py_func.__code__.co_varnames[: fty.dispatcher.py_func.__code__.co_argcount])
                        tgt = [st.value.args[names.index(m)].name for m in c.modifies]
                for t in tgt or []:
                    v = p.env.get(t)
                    if isinstance(v, ArrV) and v.aid in p.heap:
                        # only arrays that exist before the loop
                        out[v.aid] = self._root_view(v, p)
        return out

    def _root_view(self, v, p):
        for a in self.argvals.values():
            if isinstance(a, ArrV) and a.aid == v.aid:
                return a
        return v

    def _iter_len(self, it, p):
        if it.kind == "range":
            return self.sem.to_index(it.src.stop)
        return it.src.shape[0]

    def _iter_unsigned(self, it):
        return it.kind == "range" and not it.src.ty.signed and it.src.ty.bitwidth == 64

    # ------------------------------------------------------------------ function exit
    def _return(self, val, p):
        if self.interp:
            self.results.append(("return", val, p))
            return
        if self.inline:
            self.results.append(("return", self._cast_value(val, self.tir.return_type), p))
            return
        val = self._cast_value(val, self.tir.return_type)
        F = self._frame(p.heap, val)

        def local(name, default=None, p=p):
            vn = p.last.get(name)
            if vn is None or not isinstance(p.env.get(vn), Sc):
                return default
            return p.env[vn].t

        F.local = local
        F.loop_k = lambda ordinal, p=p: p.exit_k.get(ordinal)
        F.calls = p.calls
        F.retval = val
        F.locals = lambda name, p=p: [p.env[v].t for b, v in p.versions if b == name and isinstance(p.env.get(v), Sc)]
        base_pc = p.pc
        extra = list(self.contract.post_defs(F))
        rewrites = []
        for name, f in self.contract.ensures(F):
            if not self._clause_ok(self.contract, name):
                continue
            for lr in rewrites:  # sequentially: later rewrites were proved on already rewritten text
                f = z3.substitute(f, lr)
            p.pc = base_pc + extra
            if name.startswith("hint:"):
                # proof hint: tried now; if proved it becomes a hypothesis (and, when it is an
                # equation lhs == rhs, a left-to-right rewrite) for the later clauses of this path.
                # An unproved hint is dropped; hints are never obligations of a property.
                from .solve import discharge

                ob = Obligation(self.fname, "hint", name, p.pc, f, p.pid, self.cur_loc)
                discharge(ob, None, want_model=False, rlimit=25_000_000)
                self.hints.append(ob)
                if ob.result == "proved":
                    extra.append(f)
                    if z3.is_eq(f) and not z3.is_const(f.arg(0)):
                        rewrites.append((f.arg(0), f.arg(1)))
                continue
            self._emit("post", name, p, f, self.cur_loc)
            if name.startswith("lemma:"):
                extra.append(f)  # proved above on this path, usable by the later clauses
        p.pc = base_pc
        # frame: arrays not listed in modifies are unchanged
        for n, v in self.argvals.items():
            if isinstance(v, ArrV) and n not in self.contract.modifies:
                if p.heap[v.aid] is not self.entry_heap[v.aid]:
                    pre, post = ArrAcc(self.entry_heap, v, self.sem), ArrAcc(p.heap, v, self.sem)
                    f = forall(self.sem, [(0, s_) for s_ in v.shape], lambda *i: pre(*i) == post(*i))
                    self._emit("frame", "unchanged:" + n, p, f, self.cur_loc)

    def _raise(self, cls, p):
        if self.interp or self.inline:
            self.results.append(("raise", cls, p))
            return
        allowed = []
        rs = getattr(self.contract, "raises", None)
        if rs is not None:
            F = self._frame(p.heap)
            for exc, cond in rs(F):
                if cls is None or exc is cls or (isinstance(exc, type) and isinstance(cls, type) and issubclass(cls, exc)):
                    allowed.append(cond)
        goal = z3.Or(*allowed) if allowed else z3.BoolVal(False)
        self._emit("raise", getattr(cls, "__name__", str(cls)), p, goal, self.cur_loc)

    def _cast_value(self, val, ty):
        ty = unlit(ty)
        if isinstance(val, Sc):
            return self.sem.cast(val, ty)
        if isinstance(val, TupleV) and isinstance(ty, (nt.BaseTuple,)):
            return TupleV([self._cast_value(v, t) for v, t in zip(val.items, ty.types)])
        return val

    # ------------------------------------------------------------------ expressions
    def _eval(self, v, st, p):
        sem = self.sem
        tty = self.typemap[st.target.name]
        if isinstance(v, nir.Var):
            return p.env[v.name]
        if isinstance(v, nir.Arg):
            return self.argvals[v.name]
        if isinstance(v, nir.Const):
            return self._const(v.value, tty)
        if isinstance(v, (nir.Global, nir.FreeVar)):
            if isinstance(v.value, (int, float, bool)) and not isinstance(tty, (nt.Function, nt.NumberClass)):
                return self._const(v.value, tty)
            return FuncV(v.value)
        if not isinstance(v, nir.Expr):
            raise Unsupported("IR value %s" % type(v).__name__)
        op = v.op
        obl = []
        try:
            if op in ("binop", "inplace_binop"):
                fn = v.immutable_fn if op == "inplace_binop" else v.fn
                r = self._binop(fn.__name__, p.env[v.lhs.name], p.env[v.rhs.name], self.calltypes[v], obl, p)
            elif op == "unary":
                r = sem.unary(v.fn.__name__, p.env[v.value.name], self.calltypes[v], obl)
            elif op == "cast":
                r = self._cast_value(p.env[v.value.name], tty)
            elif op == "call":
                r = self._call(v, st, p, obl)
            elif op in ("getitem", "static_getitem"):
                r = self._getitem(v, st, p, obl)
            elif op == "getattr":
                base = p.env[v.value.name]
                if isinstance(base, FuncV):
                    r = FuncV(getattr(base.obj, v.attr))
                else:
                    raise Unsupported("getattr %s on %s" % (v.attr, type(base).__name__))
            elif op == "build_tuple":
                r = TupleV([p.env[i.name] for i in v.items])
            elif op == "exhaust_iter":
                r = p.env[v.value.name]
            elif op == "getiter":
                r = self._getiter(p.env[v.value.name], p)
            elif op == "iternext":
                r = self._iternext(p.env[v.value.name], p, obl)
            elif op == "pair_first":
                r = p.env[v.value.name].first
            elif op == "pair_second":
                r = p.env[v.value.name].second
            else:
                raise Unsupported("IR expr op %s" % op)
        finally:
            for kind, f in obl:
                if kind in FLOAT_SAFETY and not self.float_safety:
                    self.sem.assumptions.add("float side conditions not checked (%s): float64 treated as real" % kind)
                    continue
                self._emit("safety", "%s@L%s" % (kind, self.cur_loc), p, f, self.cur_loc)
        return r

    def _const(self, val, ty):
        ty = unlit(ty)
        if val is None:
            return NONE
        if isinstance(val, (bool, int)) and (is_int(ty) or is_bool(ty)):
            return self.sem.const(val, ty)
        if isinstance(val, (int, float)) and is_float(ty):
            return Sc(_float_to_rat(float(val)), ty)
        if isinstance(val, str):
            return val
        raise Unsupported("constant %r of type %s" % (val, ty))

    def _binop(self, name, a, b, sig, obl, p):
        name = {"and_": "and_", "or_": "or_"}.get(name, name)
        if isinstance(a, ArrV) and isinstance(b, ArrV) and name == "eq":
            na, nb = a.shape[0], b.shape[0]
            obl.append(("array-eq-same-shape", na == nb))
            heap = p.heap  # snapshot (persistent)
            return BoolArrV(na, lambda j, facts, a=a, b=b, heap=heap: a.sel(heap, (j,), facts) == b.sel(heap, (j,), facts))
        if not (isinstance(a, Sc) and isinstance(b, Sc)):
            raise Unsupported("binop %s on %s, %s" % (name, type(a).__name__, type(b).__name__))
        r = self.sem.binop(name, a, b, sig, obl)
        return self._concretize(r)

    def _concretize(self, r):
        if self.unroll and isinstance(r, Sc):
            return Sc(z3.simplify(r.t), r.ty)
        return r

    # ------------------------------------------------------------------ calls
    def _call(self, v, st, p, obl):
        sem = self.sem
        fvar = v.func.name
        fty = self.typemap[fvar]
        sig = self.calltypes[v]
        args = [p.env[a.name] for a in v.args]
        if isinstance(fty, nt.NumberClass):
            a = sem.cast(args[0], sig.args[0], obl)
            return self._concretize(sem.cast(a, sig.return_type, obl))
        if isinstance(fty, nt.Dispatcher):
            return self._call_kernel(fty, sig, args, p, obl)
        fobj = p.env[fvar].obj if isinstance(p.env.get(fvar), FuncV) else None
        if fobj is bool:
            return Sc(sem.truth(args[0]), nt.boolean)
        if fobj is len:
            a = args[0]
            n = a.length if isinstance(a, BytesV) else a.shape[0]
            return Sc(n, nt.int64) if sem.mode == INT else Sc(n, nt.int64)
        if fobj is min or fobj is max:
            return self._concretize(sem.minmax(fobj.__name__, args, sig.return_type, obl))
        if fobj is range or fobj is nb_prange:
            rty = sig.return_type
            ity = rty.iterator_type.yield_type
            if len(args) != 1:
                raise Unsupported("range with %d arguments" % len(args))
            stop = sem.cast(sem.cast(args[0], sig.args[0], obl), ity, obl)
            return RangeV(sem.const(0, ity), stop, ity, fobj is nb_prange)
        if fobj is slice:
            a = [None if x is NONE else sem.cast(sem.cast(x, s_, obl), nt.int64, obl) for x, s_ in zip(args, sig.args)]
            if len(a) != 2:
                raise Unsupported("slice with step")
            return SliceV(a[0], a[1])
        if fobj is np.frombuffer:
            return self._frombuffer(args[0], sig.return_type, p, obl)
        if fobj is np.zeros:
            n = sem.to_index(sem.cast(args[0], sig.args[0], obl))
            dt = sig.return_type.dtype
            aid = uid("zeros")
            zero = sem.const(0, dt).t
            p.heap[aid] = FnArr(1, lambda idx, facts, zero=zero: zero)
            obl.append(("zeros-nonneg-size", n >= 0))
            return ArrV(aid, dt, (n,))
        if fobj is np.all:
            a = args[0]
            if not isinstance(a, BoolArrV):
                raise Unsupported("np.all on %s" % type(a).__name__)
            facts = []
            r = forall(sem, [(0, a.n)], lambda j: a.pred(j, None))
            return Sc(r, nt.boolean)
        if fobj is np.count_nonzero:
            a = args[0]
            cnt = COUNT_NONZERO(sem, a, p)
            p.pc += [cnt >= 0, cnt <= a.shape[0]] if sem.mode == INT else []
            return Sc(cnt, nt.int64)
        if fobj is np.log:
            a = sem.cast(args[0], nt.float64, obl)
            obl.append(("log-positive", a.t > 0))
            return Sc(S.LN(a.t), nt.float64)
        if fobj is np.exp:
            a = sem.cast(args[0], nt.float64, obl)
            return Sc(S.EXP(a.t), nt.float64)
        if fobj is np.interp:
            x = sem.cast(args[0], nt.float64, obl)
            return Sc(INTERP(sem, x.t, args[1], args[2], p), nt.float64)
        if getattr(fobj, "__name__", "") == "rand" and "RandomState" in repr(fobj):
            n = args[0]
            aid = uid("rand")
            arr = BaseArr(sem, aid, 1, nt.float64)
            q = z3.Const(uid("q"), sem.idx_sort())
            p.pc.append(z3.ForAll([q], z3.And(arr.uf(q) >= 0, arr.uf(q) < 1), patterns=[arr.uf(q)]))
            p.heap[aid] = arr
            self.sem.assumptions.add("np.random.rand returns reals in [0,1) (assumed contract)")
            return ArrV(aid, nt.float64, (sem.to_index(n) if isinstance(n, Sc) else sem.to_index(n.items[0]),))
        if isinstance(fobj, type) and issubclass(fobj, BaseException):
            return ExcV(fobj)
        raise Unsupported("call of %r" % (fobj if fobj is not None else fty,))

    def _callee_contract(self, fty):
        pf = fty.dispatcher.py_func
        name = "%s.%s" % (pf.__module__.split(".")[-1], pf.__name__)
        key = "%s#%s" % (name, self.sem.mode)
        if key in self.registry:
            return self.registry[key]
        if name not in self.registry:
            raise Unsupported("no contract for callee %s" % name)
        c = self.registry[name]
        if c.mode != self.sem.mode:
            raise Unsupported("callee %s has a %s-mode contract, caller is %s-mode" % (name, c.mode, self.sem.mode))
        return c

    def _call_kernel(self, fty, sig, args, p, obl):
        sem = self.sem
        pf = fty.dispatcher.py_func
        names = list(pf.__code__.co_varnames[: pf.__code__.co_argcount])
        if self.interp:
            # interpreter mode: recursively interpret the callee's own IR
            from .extract import typed_ir

            tir = typed_ir(fty.dispatcher)
            cmode = tir_mode(tir, self.registry)
            if cmode != sem.mode:
                # callee lives in the other integer encoding (hash kernels are bit-vector mode):
                # pass concrete python values across and convert the result back
                conc = []
                for a_ in args:
                    if isinstance(a_, Sc):
                        conc.append(as_py(a_.t))
                    elif isinstance(a_, BytesV):
                        n_ = as_py(a_.length)
                        conc.append(bytes(as_py(a_.byte(p.heap, sem.idx_const(j), None)) for j in range(n_)))
                    else:
                        raise Unsupported("cross-mode interpreter call with %s" % type(a_).__name__)
                sub = Engine(tir, None, self.registry, unroll=True, concrete_args=conc)
                sub.run()
                rets = [r for r in sub.results if r[0] == "return"]
                if len(rets) != 1 or len(sub.results) != 1:
                    raise InterpRaise(sub.results[:1])
                rv = rets[0][1]
                return sem.const(as_py(rv.t), rv.ty)
            sub = Engine(tir, None, self.registry, unroll=True)
            sub.sem = sem
            sub.interp = True
            return sub.interpret_with(args, p, sig)
        try:
            c = self._callee_contract(fty)
        except Unsupported:
            if "%s.%s" % (pf.__module__.split(".")[-1], pf.__name__) in self.registry:
                raise
            return self._inline_call(fty, sig, args, p)
        cname = c.name
        argvals = {}
        for n, a, t in zip(names, args, sig.args):
            t = unlit(t)
            if isinstance(a, Sc):
                a = self._cast_pc(p, a, t, obl)
            argvals[n] = a
        pre_heap = dict(p.heap)
        F = Frame(sem, argvals, pre_heap)
        for rn, f in c.call_requires(F, sem.mode):
            self._emit("call", "%s:%s" % (cname.split(".")[-1], rn), p, f, self.cur_loc)
        # parallel-loop frame: a callee writing shared arrays inside a prange body is not analysed
        for m in c.modifies:
            av = argvals[m]
            if not isinstance(av, ArrV):
                raise Unsupported("modifies of non-array %s" % m)
            conc = [as_py(s_) for s_ in av.shape]
            base_nd = p.heap[av.aid].ndim
            if all(x is not None for x in conc) and len(conc) == base_nd:
                arr = CellArr(sem, uid(m + "_c"), conc, av.dtype)
            else:
                arr = BaseArr(sem, uid(m + "_c"), base_nd, av.dtype)
            p.heap[av.aid] = arr
            p.pc.extend(arr.axioms())
        rty = unlit(sig.return_type)
        res = self._fresh_value(uid("ret_" + cname.split(".")[-1]), rty, p)
        p.calls = p.calls + ((cname, dict(argvals), res),)
        F2 = Frame(sem, argvals, pre_heap, p.heap, res)
        g = NS()
        gl = list(c.ghosts(F))
        for gname, sort in gl:
            setattr(g, gname, sort(uid(gname + "!cg")) if callable(sort) else z3.Const(uid(gname + "!cg"), sort))
        F.g = F2.g = g
        for f in c.call_defs(F):
            p.pc.append(f)
        for f in c.post_defs(F2):
            p.pc.append(f)
        for en, f in c.call_ensures(F2, sem.mode):
            if en.startswith("hint:"):
                continue  # proof hints belong to the callee's own proof, they are not contract clauses
            if self._clause_ok(c, en):
                p.pc.append(f)
        rs = getattr(c, "raises", None)
        if rs is not None:
            for exc, cond in rs(F):
                p2 = p.fork()
                p2.pc.append(cond)
                self._raise(exc, p2)
                p.pc.append(z3.Not(cond))
        return res

    def _inline_call(self, fty, sig, args, p):
        """a callee without a contract (e.g. a helper split off by a refactoring) is executed
        symbolically inside the caller's proof - its body is its contract.  Supported: callees that
        store into no array, raise nothing and whose loops (if any) have concrete bounds; its safety
        obligations become obligations of the caller; its return paths are joined into one value."""
        from .extract import typed_ir

        sem = self.sem
        tir = typed_ir(fty.dispatcher)
        if tir_mode(tir, self.registry) != sem.mode and sem.mode != INT:
            raise Unsupported("no contract for callee %s (and it cannot be inlined across encodings)" % tir.qualname)
        sub = Engine(tir, None, self.registry, unroll=True)
        sub.sem = sem
        sub.inline = True
        sub.obligations = self.obligations
        sub.fname = self.fname
        sub.cur_loc = getattr(self, "cur_loc", None)
        sub.ghosts = NS()
        sub.depth = getattr(self, "depth", 0) + 1
        if sub.depth > 4:
            raise Unsupported("inlining deeper than 4 calls (%s)" % tir.qualname)
        sp = Path()
        sp.heap = dict(p.heap)
        sp.iters = p.iters
        sp.pc = list(p.pc)
        sp.pid = p.pid
        sub.argvals = {}
        for n, a, t in zip(tir.arg_names, args, sig.args):
            if isinstance(a, Sc):
                a = self._cast_pc(p, a, unlit(t), [])
            sub.argvals[n] = a
            sp.env[n] = a
        sub.entry_heap = dict(p.heap)
        n0 = len(p.pc)
        try:
            sub._explore([(min(sub.blocks), sp)])
        except Unsupported as e:
            raise Unsupported("no contract for callee %s and its body cannot be inlined (%s)" % (tir.qualname, e))
        rets = [r for r in sub.results if r[0] == "return"]
        if len(rets) != len(sub.results) or not rets:
            raise Unsupported("no contract for callee %s and it may raise: cannot be inlined" % tir.qualname)
        for _, _, rp in rets:
            for aid, arr in p.heap.items():
                if rp.heap.get(aid) is not arr:
                    raise Unsupported("no contract for callee %s and it stores into an array: cannot be inlined" % tir.qualname)
        self.sem.assumptions.add("callee %s has no contract: its body was executed inside the proof of %s" % (tir.qualname, self.fname))
        rty = unlit(sig.return_type)
        if isinstance(rty, nt.NoneType):
            return NONE
        if len(rets) == 1:
            p.pc.extend(rets[0][2].pc[n0:])
            return rets[0][1]
        res = self._fresh_value(uid("ret_" + tir.qualname.split(".")[-1]), rty, p)
        if not isinstance(res, Sc):
            raise Unsupported("no contract for callee %s returning %s" % (tir.qualname, rty))
        p.pc.append(z3.Or(*[z3.And(*(list(rp.pc[n0:]) + [res.t == rv.t])) for _, rv, rp in rets]))
        return res

    def _fresh_value(self, name, ty, p):
        if isinstance(ty, nt.NoneType):
            return NONE
        if isinstance(ty, nt.BaseTuple):
            return TupleV([self._fresh_value("%s_%d" % (name, i), t, p) for i, t in enumerate(ty.types)])
        v, facts = self.sem.fresh(name, ty)
        p.pc.extend(facts)
        return v

    # interpreter entry used for callee recursion
    def interpret_with(self, args, p, sig):
        sub = Path()
        sub.heap = p.heap  # shared heap: callee writes are visible to the caller
        sub.iters = p.iters
        self.argvals = {}
        for n, a, t in zip(self.tir.arg_names, args, sig.args):
            if isinstance(a, Sc):
                a = self.sem.cast(a, unlit(t))
                a = Sc(z3.simplify(a.t), a.ty)
            self.argvals[n] = a
        self.entry_heap = dict(p.heap)
        self._explore([(min(self.blocks), sub)])
        rets = [r for r in self.results if r[0] in ("return", "raise", "obligation-failed")]
        bad = [r for r in rets if r[0] != "return"]
        if bad:
            raise InterpRaise(bad[0])
        if len(rets) != 1:
            raise Unsupported("interpreter: %d results" % len(rets))
        p.heap = rets[0][2].heap
        return self._cast_value(rets[0][1], self.tir.return_type)

    # ------------------------------------------------------------------ bytes / arrays
    def _quick(self, p, f, rlimit=8_000_000):
        """is f implied by the path condition?  (cheap solver query; used only to *simplify* terms,
        a 'no'/'unknown' keeps the general form, so soundness never depends on it)"""
        if self.interp:
            return as_py(f) is True
        s_ = z3.Solver()
        s_.set("rlimit", rlimit)
        for h in p.pc:
            s_.add(h)
        s_.add(z3.Not(f))
        return s_.check() == z3.unsat

    def _cast_pc(self, p, v, toty, obl):
        """cast with path-condition-guided simplification: a narrowing integer cast whose operand is
        provably inside the target range is the identity (no `mod` term); otherwise the general form"""
        sem = self.sem
        fromty, to = unlit(v.ty), unlit(toty)
        if sem.mode == INT and is_int(fromty) and is_int(to) and fromty != to and not self.interp:
            flo, fhi = S.int_range(fromty)
            tlo, thi = S.int_range(to)
            if not (tlo <= flo and fhi <= thi) and fromty.bitwidth != to.bitwidth:
                if self._quick(p, z3.And(v.t >= tlo, v.t <= thi), rlimit=4_000_000):
                    return Sc(v.t, to)
        return sem.cast(v, to, obl)

    def _fix_slice(self, sl, size, p=None):
        """python slice normalisation (step 1) -> (start, length) in index sort"""
        sem = self.sem
        zero = sem.idx_const(0)

        def fix(x, default):
            if x is None:
                return default
            t = x.t
            if p is not None and not self.unroll and self._quick(p, z3.And(t >= 0, t <= size)):
                return t
            return z3.If(t < 0, z3.If(t + size < 0, zero, t + size), z3.If(t > size, size, t))

        a = fix(sl.start, zero)
        b = fix(sl.stop, size)
        if p is not None and not self.unroll and self._quick(p, b - a >= 0):
            ln = b - a
        else:
            ln = z3.If(b - a < 0, zero, b - a)
        if self.unroll:
            a, ln = z3.simplify(a), z3.simplify(ln)
        return a, ln

    def _getitem(self, v, st, p, obl):
        sem = self.sem
        base = p.env[v.value.name]
        if v.op == "static_getitem" and isinstance(base, TupleV):
            return base.items[v.index]
        if v.op == "static_getitem":
            idx = p.env[v.index_var.name] if v.index_var is not None else self._const(v.index, nt.int64)
        else:
            idx = p.env[v.index.name]
        if isinstance(base, TupleV):
            c = as_py(idx.t)
            if c is None:
                raise Unsupported("symbolic tuple index")
            return base.items[c]
        if isinstance(base, BytesV):
            if isinstance(idx, SliceV):
                a, ln = self._fix_slice(idx, base.length, p)
                return BytesV(base.aid, base.off + a, ln, base.bid, sem, owner=base.owner)
            it, inb = sem.index_term(idx, base.length)
            obl.append(("bounds", inb))
            facts = []
            t = base.byte(p.heap, it, facts)
            p.pc.extend(facts)
            return self._concretize(Sc(t, nt.uint8))
        if isinstance(base, ArrV):
            idxs = list(idx.items) if isinstance(idx, TupleV) else [idx]
            if all(isinstance(i, Sc) for i in idxs):
                terms = []
                for d, i in enumerate(idxs):
                    it, inb = sem.index_term(i, base.shape[d])
                    obl.append(("bounds", inb))
                    terms.append(it)
                if len(terms) == base.ndim:
                    self._par_check(base, terms, p, "read")
                    facts = []
                    t = base.sel(p.heap, terms, facts)
                    p.pc.extend(facts)
                    return self._concretize(Sc(t, base.dtype))
                # partial index -> view of the trailing dimensions
                k = len(terms)
                pre = tuple(terms)
                self._par_check(base, terms, p, "read")
                return ArrV(
                    base.aid,
                    base.dtype,
                    base.shape[k:],
                    imap=lambda rest, pre=pre, bm=base.imap: bm(pre + tuple(rest)),
                    readonly=base.readonly,
                    owner=base.owner,
                )
            if len(idxs) == 1 and isinstance(idxs[0], SliceV) and base.ndim == 1:
                start, ln = self._fix_slice(idxs[0], base.shape[0], p)
                return ArrV(
                    base.aid,
                    base.dtype,
                    (ln,),
                    imap=lambda rest, start=start, bm=base.imap: bm((start + rest[0],)),
                    readonly=base.readonly,
                    sel_override=(None if base.sel_override is None else (lambda heap, idx, facts, so=base.sel_override, start=start: so(heap, (start + idx[0],), facts))),
                    owner=base.owner,
                )
            if len(idxs) == base.ndim and all(isinstance(i, Sc) for i in idxs[:-1]) and isinstance(idxs[-1], SliceV) and base.sel_override is None:
                # a[i, j, lo:hi]: the scalar indices select a row, the slice a window of it
                terms = []
                for d, i in enumerate(idxs[:-1]):
                    it, inb = sem.index_term(i, base.shape[d])
                    obl.append(("bounds", inb))
                    terms.append(it)
                self._par_check(base, terms, p, "read")
                start, ln = self._fix_slice(idxs[-1], base.shape[-1], p)
                pre = tuple(terms)
                return ArrV(
                    base.aid,
                    base.dtype,
                    (ln,),
                    imap=lambda rest, pre=pre, start=start, bm=base.imap: bm(pre + (start + rest[0],)),
                    readonly=base.readonly,
                    owner=base.owner,
                )
            raise Unsupported("array getitem with index %s" % [type(i).__name__ for i in idxs])
        raise Unsupported("getitem on %s" % type(base).__name__)

    def _par_check(self, arr, terms, p, what):
        """inside a prange body: shared arrays may only be touched in the iteration's own row"""
        if p.par is None or self.unroll:
            return
        ent = [l for l in p.loops if l[3] == p.par]
        if not ent:
            return
        if arr.aid not in ent[0][2]:
            return  # allocated inside the loop body: private
        written = self._arrays_modified_in(ent[0][1], p)
        if what == "read" and arr.aid not in written:
            return
        row = p.iters[p.par] - 1  # iterator already advanced past the current row
        rv = self._loop_induction(ent[0][1], p)
        self._emit("par", "%s-own-row@L%s" % (what, self.cur_loc), p, terms[0] == rv, self.cur_loc)

    def _loop_induction(self, li, p):
        hdr = self.blocks[li.header]
        for st in hdr.body:
            if isinstance(st, nir.Assign) and isinstance(st.value, nir.Expr) and st.value.op == "pair_first":
                v = p.env[st.target.name]
                return self.sem.to_index(v)
        raise Unsupported("no induction variable")

    def _frombuffer(self, b, rty, p, obl):
        sem = self.sem
        if not isinstance(b, BytesV):
            raise Unsupported("frombuffer of %s" % type(b).__name__)
        dt = unlit(rty.dtype)
        isz = dt.bitwidth // 8
        if isz == 1:
            return ArrV(b.aid, dt, (b.length,), imap=lambda idx, off=b.off: (off + idx[0],), readonly=True, owner=getattr(b, "owner", None))
        if sem.mode != BV:
            raise Unsupported("frombuffer with itemsize %d in int mode" % isz)
        obl.append(("frombuffer-size-multiple", z3.URem(b.length, z3.BitVecVal(isz, 64)) == 0))
        n = z3.UDiv(b.length, z3.BitVecVal(isz, 64))
        self.sem.assumptions.add("little-endian host (np.frombuffer reinterpretation)")

        def sel(heap, idx, facts, b=b, isz=isz):
            base = b.off + idx[0] * z3.BitVecVal(isz, 64)
            parts = [heap[b.aid].sel((base + z3.BitVecVal(j, 64),), facts) for j in range(isz)]
            return z3.Concat(*reversed(parts))

        return ArrV(b.aid, dt, (n,), readonly=True, sel_override=sel)

    def _store(self, p, arr, new_heaparr):
        p.heap[arr.aid] = new_heaparr

    def _setitem(self, st, p):
        sem = self.sem
        obl = []
        arr = p.env[st.target.name]
        if isinstance(st, nir.StaticSetItem):
            idx = p.env[st.index_var.name]
        else:
            idx = p.env[st.index.name]
        val = p.env[st.value.name]
        sig = self.calltypes[st]
        if not isinstance(arr, ArrV):
            raise Unsupported("setitem on %s" % type(arr).__name__)
        if arr.readonly:
            raise Unsupported("store into read-only array")
        old = p.heap[arr.aid]
        idxs = list(idx.items) if isinstance(idx, TupleV) else [idx]
        try:
            if all(isinstance(i, Sc) for i in idxs) and isinstance(val, Sc) and len(idxs) == arr.ndim:
                terms = []
                for d, i in enumerate(idxs):
                    it, inb = sem.index_term(i, arr.shape[d])
                    obl.append(("bounds", inb))
                    terms.append(it)
                self._par_check(arr, terms, p, "write")
                v = self._cast_pc(p, self._cast_pc(p, val, sig.args[2], obl), arr.dtype, obl)
                vt = z3.simplify(v.t) if self.unroll else v.t
                bidx = arr.imap(tuple(terms))
                if self.unroll:
                    bidx = tuple(z3.simplify(b) for b in bidx)

                def fn(i, facts, bidx=bidx, vt=vt, old=old):
                    cond = z3.And(*[a == b for a, b in zip(i, bidx)])
                    c = as_py(cond)
                    if c is True:
                        return vt
                    if c is False:
                        return old.sel(i, facts)
                    return z3.If(cond, vt, old.sel(i, facts))

                p.heap[arr.aid] = FnArr(old.ndim, fn)
                return
            # array-valued stores: a[pre..., :] = src / a[pre...] = src / a[:k] = src
            if isinstance(val, ArrV):
                pre = []
                sl = None
                for d, i in enumerate(idxs):
                    if isinstance(i, Sc):
                        it, inb = sem.index_term(i, arr.shape[d])
                        obl.append(("bounds", inb))
                        pre.append(it)
                    elif isinstance(i, SliceV):
                        if d != len(idxs) - 1:
                            raise Unsupported("slice not in last index position")
                        sl = i
                    else:
                        raise Unsupported("index kind %s" % type(i).__name__)
                d = len(pre)
                if d + 1 != arr.ndim or val.ndim != 1:
                    raise Unsupported("array store of rank %d into rank %d at depth %d" % (val.ndim, arr.ndim, d))
                dim = arr.shape[d]
                if sl is not None:
                    start, ln = self._fix_slice(sl, dim, p)
                else:
                    start, ln = sem.idx_const(0), dim
                obl.append(("slice-assign-same-size", ln == val.shape[0]))
                if pre:
                    self._par_check(arr, pre, p, "write")
                src_heap = dict(p.heap)
                pre = tuple(pre)
                amap = arr.imap

                def fn(i, facts, old=old, pre=pre, start=start, ln=ln, val=val, src_heap=src_heap, amap=amap, arr=arr):
                    # i is a *base* index; supported only when the view maps identically on the leading dims
                    lead, last = i[:-1], i[-1]
                    bpre = amap(pre + (start,))[:-1]
                    boff = amap(pre + (start,))[-1]
                    cond = z3.And(*([a == b for a, b in zip(lead, bpre)] + [last >= boff, last < boff + ln]))
                    c = as_py(cond)
                    srcv = lambda: sem.cast(Sc(val.sel(src_heap, (last - boff,), facts), val.dtype), arr.dtype).t
                    if c is True:
                        return z3.simplify(srcv())
                    if c is False:
                        return old.sel(i, facts)
                    return z3.If(cond, srcv(), old.sel(i, facts))

                p.heap[arr.aid] = FnArr(old.ndim, fn)
                return
            raise Unsupported("setitem form index=%s value=%s" % ([type(i).__name__ for i in idxs], type(val).__name__))
        finally:
            for kind, f in obl:
                if kind in FLOAT_SAFETY and not self.float_safety:
                    self.sem.assumptions.add("float side conditions not checked (%s): float64 treated as real" % kind)
                    continue
                self._emit("safety", "%s@L%s" % (kind, self.cur_loc), p, f, self.cur_loc)

    # ------------------------------------------------------------------ iteration
    def _getiter(self, src, p):
        iid = uid("it")
        if isinstance(src, RangeV):
            p.iters[iid] = self.sem.to_index(src.start)
            return IterV(iid, "range", src)
        if isinstance(src, ArrV) and src.ndim == 1:
            p.iters[iid] = self.sem.idx_const(0)
            return IterV(iid, "array", src)
        raise Unsupported("iteration over %s" % type(src).__name__)

    def _iternext(self, it, p, obl):
        sem = self.sem
        k = p.iters[it.iid]
        if it.kind == "range":
            ty = it.src.ty
            stop = sem.to_index(it.src.stop)
            if sem.mode == BV and self._iter_unsigned(it):
                valid = z3.ULT(k, stop)
            else:
                valid = k < stop
            if sem.mode == INT:
                cur = Sc(k, ty)
            else:
                cur = Sc(k if ty.bitwidth == 64 else z3.Extract(ty.bitwidth - 1, 0, k), ty)
            val = cur
        else:
            n = it.src.shape[0]
            valid = k < n
            facts = []
            t = it.src.sel(p.heap, (k,), facts)
            p.pc.extend(z3.Implies(valid, f) for f in facts)
            val = Sc(t, it.src.dtype)
        one = sem.idx_const(1)
        nk = z3.If(valid, k + one, k)
        if self.unroll:
            nk = z3.simplify(nk)
            valid = z3.simplify(valid)
            val = self._concretize(val)
        p.iters[it.iid] = nk
        return PairV(val, Sc(valid, nt.boolean))


def _has_quantifier(f):
    todo = [f]
    seen = 0
    while todo and seen < 20000:
        t = todo.pop()
        seen += 1
        if z3.is_quantifier(t):
            return True
        todo.extend(t.children())
    return False


class LoopInfo:
    def __init__(self, ordinal, header, lp, blocks):
        self.ordinal, self.header = ordinal, header
        self.body = set(lp.body)
        self.assigned = set()
        for lbl in self.body:
            for st in blocks[lbl].body:
                if isinstance(st, nir.Assign):
                    self.assigned.add(st.target.name)
        # carried = assigned inside the loop *and* somewhere outside (phi-stripped copies)
        outside = set()
        for lbl, blk in blocks.items():
            if lbl in self.body:
                continue
            for st in blk.body:
                if isinstance(st, nir.Assign):
                    outside.add(st.target.name)
        self.carried = sorted(self.assigned & outside)
        self.live_in = set(self.carried)


class BindingLost(Exception):
    pass


class InterpRaise(Exception):
    pass


def _float_to_rat(x):
    from fractions import Fraction

    fr = Fraction(float(x))
    return z3.Q(fr.numerator, fr.denominator)


def tir_mode(tir, registry):
    c = registry.get(tir.qualname)
    return c.mode if c is not None else INT


def arr_tag(sem, arr):
    """opaque identity of an array value (used by spec functions of whole arrays: count_nonzero,
    interp tables, the HLL harmonic sum); views of the same heap cell share the tag"""
    return z3.Const("tag_" + str(arr.aid), sem.idx_sort())


def CNZ_fn(sem):
    s_ = sem.idx_sort()
    return z3.Function("COUNT_NONZERO_" + sem.mode, s_, s_)


INTERP_FN = z3.Function("INTERP", z3.RealSort(), z3.IntSort(), z3.IntSort(), z3.RealSort())


def COUNT_NONZERO(sem, arr, p):
    """np.count_nonzero(a): named function of the array value (axioms are supplied by contracts)"""
    return CNZ_fn(sem)(arr_tag(sem, arr))


def INTERP(sem, x, xp, fp, p):
    """np.interp(x, xp, fp): named piecewise-linear interpolation of the two table values"""
    if sem.mode != INT:
        raise Unsupported("np.interp in bv mode")
    return INTERP_FN(x, arr_tag(sem, xp), arr_tag(sem, fp))
