"""Lemma layer for HyperLogLog (C02): code-independent obligations over the *contract clauses*
of hyperloglog._add / _merge / _add_ngram (function `added`, `umax8` of the contract module)."""
import z3
from .contracts.hyperloglog import added, umax8, rank, reg_index, nlz_def, nlz_char, NLZ, bv, bv8, BV64, BV8, hll_requires
from .contracts.hashes_bv import FH64B


class P:  # parameters of one sketch family member (symbolic)
    def __init__(self):
        self.p = z3.BitVec("p", 64)
        self.m = z3.BitVec("m", 64)
        self.seed = z3.BitVec("seed", 64)
        self.base = [z3.UGE(self.p, bv(7)), z3.ULE(self.p, bv(16)), self.m == bv(1) << self.p]

    def h(self, k):
        return FH64B(k, self.seed)


def lemmas():
    """-> list of (name, hyps, goal)"""
    F = P()
    out = []
    i = z3.BitVec("i", 64)
    r = z3.Function("r", BV64, BV8)
    a = z3.Function("a", BV64, BV8)
    b = z3.Function("b", BV64, BV8)
    c = z3.Function("c", BV64, BV8)
    k1, k2, k0 = z3.BitVecs("k1 k2 k0", 64)
    x = z3.BitVec("x", 64)
    inrange = [z3.ULT(i, F.m)]
    mx = lambda f, g: (lambda j: umax8(f(j), g(j)))

    out.append(("nlz-char: the explicit leading-zero definition satisfies its characterisation", [], nlz_char(x, nlz_def(x))))
    # facts about NLZ used below are instances of nlz-char
    def nlzfacts(*hs):
        return [nlz_char(z3.LShR(h, F.p), NLZ(z3.LShR(h, F.p))) for h in hs]

    A = lambda f, k: added(F, f, F.h(k))
    out.append(("add-idempotent", F.base + inrange, A(A(r, k1), k1)(i) == A(r, k1)(i)))
    out.append(("add-commutative", F.base + inrange, A(A(r, k1), k2)(i) == A(A(r, k2), k1)(i)))
    out.append(("merge-commutative", F.base + inrange, mx(a, b)(i) == mx(b, a)(i)))
    out.append(("merge-associative", F.base + inrange, mx(mx(a, b), c)(i) == mx(a, mx(b, c))(i)))
    out.append(("merge-idempotent", F.base + inrange, mx(a, a)(i) == a(i)))
    out.append(("merge-add-distributes", F.base + inrange, mx(A(a, k1), b)(i) == A(mx(a, b), k1)(i)))
    out.append(("merge-with-empty", F.base + inrange, mx(a, lambda j: bv8(0))(i) == a(i)))

    # representation invariant: registers[i] = max{rho(k) : k in K, idx(k) = i} (0 for the empty set)
    K = z3.Function("inK", BV64, z3.BoolSort())
    Ka = z3.Function("inKa", BV64, z3.BoolSort())
    Kb = z3.Function("inKb", BV64, z3.BoolSort())
    idx = lambda k: reg_index(F.h(k), F.m)
    rho = lambda k: rank(F.h(k), F.p)

    def rep(reg, inK, tag):
        q = z3.BitVec("q_" + tag, 64)
        j = z3.BitVec("j_" + tag, 64)
        w = z3.BitVec("w_" + tag, 64)
        lower = z3.ForAll([q], z3.Implies(inK(q), z3.UGE(reg(idx(q)), rho(q))))
        att = z3.ForAll([j], z3.Implies(z3.ULT(j, F.m), z3.Or(reg(j) == bv8(0), z3.Exists([w], z3.And(inK(w), idx(w) == j, reg(j) == rho(w))))))
        return lower, att

    def rep_goal_lower(reg, inK, q):
        return z3.Implies(inK(q), z3.UGE(reg(idx(q)), rho(q)))

    def rep_goal_att(reg, inK, j, witnesses):
        return z3.Implies(z3.ULT(j, F.m), z3.Or(reg(j) == bv8(0), *[z3.And(inK(w), idx(w) == j, reg(j) == rho(w)) for w in witnesses]))

    q0, j0 = z3.BitVecs("q0 j0", 64)
    zero = lambda j: bv8(0)
    none = lambda k: z3.BoolVal(False)
    out.append(("rep-init-lower", F.base, rep_goal_lower(zero, none, q0)))
    out.append(("rep-init-attained", F.base, rep_goal_att(zero, none, j0, [])))
    # add: K' = K + {k0}
    lo, at = rep(r, K, "r")
    Kp = lambda k: z3.Or(K(k), k == k0)
    rp = A(r, k0)
    wit = z3.BitVec("wit", 64)
    att_inst = z3.Implies(z3.ULT(j0, F.m), z3.Or(r(j0) == bv8(0), z3.And(K(wit), idx(wit) == j0, r(j0) == rho(wit))))  # skolemised instance of `at` at j0
    out.append(("rep-add-lower", F.base + [lo] + nlzfacts(F.h(k0), F.h(q0)), rep_goal_lower(rp, Kp, q0)))
    out.append(("rep-add-attained", F.base + [lo, att_inst] + nlzfacts(F.h(k0)), rep_goal_att(rp, Kp, j0, [wit, k0])))
    # merge: K' = Ka + Kb
    loa, ata = rep(a, Ka, "a")
    lob, atb = rep(b, Kb, "b")
    Kab = lambda k: z3.Or(Ka(k), Kb(k))
    wa, wb = z3.BitVecs("wa wb", 64)
    ia = z3.Implies(z3.ULT(j0, F.m), z3.Or(a(j0) == bv8(0), z3.And(Ka(wa), idx(wa) == j0, a(j0) == rho(wa))))
    ib = z3.Implies(z3.ULT(j0, F.m), z3.Or(b(j0) == bv8(0), z3.And(Kb(wb), idx(wb) == j0, b(j0) == rho(wb))))
    out.append(("rep-merge-lower", F.base + [loa, lob], rep_goal_lower(mx(a, b), Kab, q0)))
    out.append(("rep-merge-attained", F.base + [ia, ib], rep_goal_att(mx(a, b), Kab, j0, [wa, wb])))
    # uniqueness: the key set determines the registers
    lo1, _ = rep(a, K, "u1")
    lo2, _ = rep(b, K, "u2")
    ia = z3.Implies(z3.ULT(j0, F.m), z3.Or(a(j0) == bv8(0), z3.And(K(wa), idx(wa) == j0, a(j0) == rho(wa))))
    ib = z3.Implies(z3.ULT(j0, F.m), z3.Or(b(j0) == bv8(0), z3.And(K(wb), idx(wb) == j0, b(j0) == rho(wb))))
    out.append(("rep-unique", F.base + [lo1, lo2, ia, ib], z3.Implies(z3.ULT(j0, F.m), a(j0) == b(j0))))
    return out
