"""./check <ID> [--tier quick|thorough] [--replay FILE] [--rebaseline]"""
import argparse
import importlib
import json
import os
import sys
import traceback


def main(argv=None):
    ap = argparse.ArgumentParser()
    ap.add_argument("pid")
    ap.add_argument("--tier", default=os.environ.get("VERIF_TIER", "quick"), choices=["quick", "thorough"])
    ap.add_argument("--replay")
    ap.add_argument("--rebaseline", action="store_true", help="development: record proved obligations + rlimit use")
    a = ap.parse_args(argv)
    seed = int(os.environ.get("VERIF_SEED", "0") or 0)
    if os.environ.get("SKV_DUMP_AFTER"):  # development aid: where is the time going?
        import faulthandler

        faulthandler.dump_traceback_later(int(os.environ["SKV_DUMP_AFTER"]), exit=True)
    from . import ctx

    sys.path.insert(0, ctx.REPO)
    mod = importlib.import_module("skv.props." + a.pid)
    if a.replay:
        return mod.replay(a.replay)
    chk = ctx.Check(a.pid, a.tier, seed)
    try:
        import skv.contracts  # noqa: F401

        mod.run(chk)
        # the class-level obligations every history-quantified property rests on (idempotent parts)
        import json as _json

        bundle = _json.load(open(os.path.join(os.path.dirname(os.path.abspath(__file__)), "props", "_bundle.json"))).get(a.pid)
        if bundle:
            from .props import _glue

            _glue.integrity_bundle(chk, bundle)
    except Exception:
        chk.errors.append("exception in checker: " + traceback.format_exc()[-2000:])
    rc = chk.finish(**getattr(mod, "FINISH", {}))
    if a.rebaseline and rc == 0:
        os.makedirs(os.path.join(ctx.VERIF, "baseline"), exist_ok=True)
        fn = os.path.join(ctx.VERIF, "baseline", a.pid + ".json")
        bl = {r["name"]: r.get("units", 0) for r in chk.rows if r["result"] == "proved"}
        json.dump(bl, open(fn, "w"), indent=0, sort_keys=True)
        print("baseline updated: %d obligations" % len(bl))
    return rc


if __name__ == "__main__":
    sys.exit(main())
