"""Front end A, step 1: obtain Numba's *typed IR* of a jitted kernel from the tree under test.

The pipeline is Numba's own front half (bytecode -> IR -> untyped passes -> nopython type
inference -> phi stripping).  Everything after that (parfor conversion, lowering, LLVM) is
dropped and listed as trusted base in every evidence file.
"""
import hashlib
import io
from numba.core import compiler, typed_passes
from numba.core.compiler import Flags
from numba.core.registry import cpu_target


class _FrontHalf(compiler.CompilerBase):
    def define_pipelines(self):
        pm = compiler.DefaultPassBuilder.define_untyped_pipeline(self.state)
        pm.add_pass(typed_passes.NopythonTypeInference, "nopython frontend")
        pm.add_pass(typed_passes.PreLowerStripPhis, "remove phis nodes")
        pm.finalize()
        return [pm]


class TypedIR:
    def __init__(self, name, disp, func_ir, typemap, calltypes, sig, return_type):
        self.name = name
        self.qualname = "%s.%s" % (disp.py_func.__module__.split(".")[-1], disp.py_func.__name__)
        self.disp = disp
        self.func_ir = func_ir
        self.blocks = func_ir.blocks
        self.typemap = typemap
        self.calltypes = calltypes
        self.sig = sig
        self.return_type = return_type
        self.arg_names = list(func_ir.arg_names)
        buf = io.StringIO()
        func_ir.dump(file=buf)
        self.text = buf.getvalue()
        self.hash = hashlib.sha256(
            (self.text + repr(sorted((k, str(v)) for k, v in typemap.items()))).encode()
        ).hexdigest()[:16]
        code = disp.py_func.__code__
        self.where = "%s:%d" % (code.co_filename, code.co_firstlineno)


def typed_ir(disp, name=None):
    """disp: a numba Dispatcher with exactly one explicit signature."""
    sigs = disp.signatures
    if len(sigs) != 1:
        raise RuntimeError("%s: expected exactly one signature, got %d" % (disp, len(sigs)))
    args = sigs[0]
    cres = disp.overloads[args]
    flags = Flags()
    flags.nrt = True
    pipe = _FrontHalf(
        cpu_target.typing_context,
        cpu_target.target_context,
        cres.library,
        args,
        cres.signature.return_type,
        flags,
        {},
    )
    try:
        pipe.compile_extra(disp.py_func)
    except AttributeError as e:  # 'StateDict' has no attribute 'cr': pipeline ends before lowering
        if "cr" not in str(e):
            raise
    st = pipe.state
    return TypedIR(
        name or disp.py_func.__name__,
        disp,
        st.func_ir,
        st.typemap,
        st.calltypes,
        args,
        cres.signature.return_type,
    )
