"""Lemma layer for the log counters (C05-log, C06, C18-log): obligations over the clauses of the
_add_log*/_log_counter/_counter2value contracts.  float64 is treated as real; POW is uninterpreted
and only the stated axiom *instances* are used (b^0 = 1, b^1 = b, b^(x+1) = b*b^x, b^-x * b^x = 1,
strict monotonicity in the exponent for b > 1)."""
import z3
from .lemma import LFrame, clauses
from .contracts import countmin as C
from .contracts.countmin import COL, zmin, is_min, DEC, unit_step
from .sem import POW
from .lemmas_cm import Env, fn, I

R = z3.RealVal


def pow_axioms(base, xs):
    """instances of the exponent laws at the given real terms"""
    out = [POW(base, R(0)) == 1, POW(base, R(1)) == base]
    for x in xs:
        out += [POW(base, x + 1) == base * POW(base, x), POW(base, -x) * POW(base, x) == 1, z3.Implies(x >= 0, POW(base, x) >= 1)]
    return out


def add_log_frame(E, ceiling, cms0, cms1, kid, v, m, new, tag=""):
    n0, n1, b0, b1 = fn("ln0" + tag, 1), fn("ln1" + tag, 1), fn("lb0" + tag, 1), fn("lb1" + tag, 1)
    rn0 = z3.Function("rn0" + tag, I, z3.RealSort())
    rn1 = z3.Function("rn1" + tag, I, z3.RealSort())
    base = z3.Real("base")
    nr, ptr, res = z3.Ints("num_reserved rand_ptr res_ptr")
    F = LFrame(
        "int",
        {"width": E.width, "depth": E.depth, "uint_maxval": z3.IntVal(ceiling), "num_reserved": nr, "base": base, "rand_ptr": ptr, "value": v},
        {
            "cms": (cms0, cms1, (E.depth, E.width)),
            "n_added_records": (n0, n1, (z3.IntVal(2),)),
            "buckets": (b0, b1, (E.depth,)),
            "rand_nums": (rn0, rn1, (z3.IntVal(2048),)),
        },
        keys={"key": kid},
        res=res,
        ghosts={"m": m, "new": new},
    )
    return F, n0, n1, nr, base


def typed(E, t, ceiling):
    r, c = z3.Ints("tr tc")
    return z3.ForAll([r, c], z3.And(t(r, c) >= 0, t(r, c) <= ceiling), patterns=[t(r, c)])


def lemmas_add_log(ceiling, tag):
    """C05 (log part) + C18 (log adds) from the _add_log contract of the given counter width"""
    E = Env()
    out = []
    cms0, cms1 = fn("lc0", 2), fn("lc1", 2)
    kid, v, m, new, k2, q2, q2n, r, c1, c2 = z3.Ints("key v m new k2 q2 q2n r c1 c2")
    contract = C.AddLog16() if ceiling == 65535 else C.AddLog8()
    F, n0, n1, nr, base = add_log_frame(E, ceiling, cms0, cms1, kid, v, m, new)
    hy = E.base + [v >= 0, v < C.TWO64, nr >= 0, nr < ceiling, base > 1, typed(E, cms0, ceiling), typed(E, cms1, ceiling)]
    hy += list(contract.ghost_defs(F)) + list(contract.post_defs(F))
    hy += [f for n, f in clauses(contract.ensures(F))]
    um = z3.IntVal(ceiling)
    P = "%s:" % tag
    out.append((P + "c05:counter-advances-by-0..v", hy, z3.And(new >= m, new <= m + v)))
    out.append((P + "c05:exactly-v-in-reserved-range", hy + [m + v <= nr + 1], new == m + v))
    old2 = is_min(F, q2, cms0, k2, um)
    new2 = is_min(F, q2n, cms1, k2, um)
    out.append((P + "c05:no-other-counter-min-decreases", hy + old2 + new2, q2n >= q2))
    out.append((P + "c05:other-min<=max(own-old,key-new)", hy + old2 + new2, q2n <= z3.If(q2 >= new, q2, new)))
    rng = [r >= 0, r < E.depth, c1 >= 0, c1 < E.width, c2 >= 0, c2 < E.width]
    out.append((P + "c05:at-most-one-counter-per-row-changes", hy + rng + [cms1(r, c1) != cms0(r, c1), cms1(r, c2) != cms0(r, c2)], c1 == c2))
    out.append((P + "c05:n_added-grows-by-v", hy + [n0(0) >= 0, n0(0) < C.TWO64], n1(0) == C.wrap64(n0(0) + v)))
    out.append((P + "c18:ceiling-is-absorbing", hy + [m == ceiling], new == ceiling))
    out.append((P + "c18:add-never-lowers-a-counter", hy + rng, cms1(r, c1) >= cms0(r, c1)))
    out.append((P + "c18:key-at-ceiling-stays", hy + old2 + new2 + [q2 == ceiling], q2n == ceiling))
    # C06 lower bound on every history: counter >= min(f, nr + 1) is preserved by an add
    f = fn("lf", 1)
    k, rr = z3.Ints("k rr")
    fpos = z3.ForAll([k], f(k) >= 0, patterns=[f(k)])
    inv = z3.ForAll([k, rr], z3.Implies(z3.And(rr >= 0, rr < E.depth), cms0(rr, COL(F, k, rr)) >= zmin(f(k), nr + 1)))
    f1 = lambda k_: f(k_) + z3.If(k_ == kid, v, 0)
    hw = E.base + [v >= 0, v < C.TWO64, nr >= 0, nr < ceiling, typed(E, cms0, ceiling), typed(E, cms1, ceiling)]
    hw += is_min(F, m, cms0, kid, um) + is_min(F, new, cms1, kid, um)
    hw += [f_ for n, f_ in clauses(contract.ensures(F), names=("w-range", "w-exact-reserved", "w-reserved-floor", "w-mono", "w-frame"))]
    out.append((P + "c06:reserved-lower-bound-preserved-by-add", hw + [fpos, inv, r >= 0, r < E.depth], cms1(r, COL(F, k2, r)) >= zmin(f1(k2), nr + 1)))
    return out, hy


def lemmas_law():
    """C06: decode is the identity up to nr+1; one probabilistic step is unbiased; decode is monotone"""
    out = []
    base = z3.Real("base")
    c, nr = z3.Ints("c nr")
    b = [base > 1, nr >= 0, c >= 0]
    x = z3.ToReal(c) - z3.ToReal(nr)
    ax = pow_axioms(base, [x])
    out.append(("c06:decode-is-identity-up-to-reserved+1", b + ax + [c <= nr + 1], DEC(c, nr, base) == z3.ToReal(c)))
    out.append(("c06:decoded-value-rises-by-base^(c-nr)", b + ax + [c >= nr], DEC(c + 1, nr, base) - DEC(c, nr, base) == POW(base, x)))
    out.append(("c06:probability*rise==1 (unbiased step)", b + ax + [c >= nr], POW(base, -x) * (DEC(c + 1, nr, base) - DEC(c, nr, base)) == 1))
    out.append(("c06:decode-strictly-increasing", b + ax + [c >= nr], DEC(c + 1, nr, base) > DEC(c, nr, base)))
    out.append(("c06:decode-strictly-increasing-reserved", b + ax + [c < nr], DEC(c + 1, nr, base) > DEC(c, nr, base)))
    # the guard of _log_counter is the documented probability: draw < base^-(c - nr)
    return out


def lemmas_merge_log(ceiling, tag):
    """C09 / C18 (log part): consequences of the cell relation of _merge_log* (clause x-cells)"""
    from .sem import LN

    out = []
    contract = C.MergeLog16() if ceiling == 65535 else C.MergeLog8()
    base = z3.Real("base")
    nr, mc, a, b, s = z3.Ints("num_reserved max_count a b s")
    F = LFrame("int", {"num_reserved": nr, "max_count": mc, "base": base, "uint_maxval": z3.IntVal(ceiling)}, {})
    hy = [base > 1, nr >= 0, nr < ceiling, a >= 0, a <= ceiling, b >= 0, b <= ceiling, s >= 0, s <= ceiling, DEC(z3.IntVal(ceiling), nr, base) == z3.ToReal(mc), contract.cell(F, a, b, s)]
    v, x, cpf, cl = contract.bracket(F, a, b)
    xa, xb = z3.ToReal(a) - z3.ToReal(nr), z3.ToReal(b) - z3.ToReal(nr)
    pos = [z3.Implies(a > nr, POW(base, xa) > 1), z3.Implies(b > nr, POW(base, xb) > 1), POW(base, R(0)) == 1]
    P = "%s:" % tag
    out.append((P + "c09:exact-sum-in-the-reserved-range", hy + pos + [v <= z3.ToReal(nr)], s == a + b))
    out.append((P + "c09:maximum-counter-once-the-sum-reaches-max_count", hy + pos + [v >= z3.ToReal(mc), v > z3.ToReal(nr)], s == ceiling))
    dl, dh = DEC(cl, nr, base), DEC(cl + 1, nr, base)
    mid = [v > z3.ToReal(nr), v < z3.ToReal(mc)]
    out.append((P + "c09:ratio-test-is-nearest-of-the-two-bracketing-counters", hy + mid + [dh > dl], s == z3.If(v - dl <= dh - v, cl, cl + 1)))
    # never below either input: decode is monotone, so a counter above the bracket would decode above v
    mono_a = z3.Implies(z3.ToReal(a) - z3.ToReal(nr) >= z3.ToReal(cl + 1) - z3.ToReal(nr), POW(base, z3.ToReal(a) - z3.ToReal(nr)) >= POW(base, z3.ToReal(cl + 1) - z3.ToReal(nr)))
    posb = [DEC(b, nr, base) >= 0]
    out.append((P + "c09:merged-counter>=input (rounding branch)", hy + mid + pos + [mono_a, DEC(b, nr, base) >= 0, cl + 1 > nr], s >= a))
    out.append((P + "c18:ceiling-absorbing-under-merge", hy + pos + [a == ceiling, z3.Implies(R(ceiling) - z3.ToReal(nr) > 0, POW(base, R(ceiling) - z3.ToReal(nr)) > 1)], s == ceiling))
    return out
