"""Executable reference semantics of the HyperLogLog register file (property C02's own wording)."""
from .hashes import fasthash64_py


def nlz64(x):
    return 64 - x.bit_length()


def rank_index(key: bytes, seed: int, p: int):
    h = fasthash64_py(key, seed)
    idx = h & ((1 << p) - 1)
    rho = nlz64(h >> p) - p + 1
    return idx, rho


def add(registers, seed, p, key):
    idx, rho = rank_index(key, seed, p)
    out = list(registers)
    out[idx] = max(out[idx], rho)
    return out


def windows(key: bytes, n: int):
    if len(key) <= n:
        return [key]
    return [key[i : i + n] for i in range(len(key) - n + 1)]


def merge(a, b):
    return [max(x, y) for x, y in zip(a, b)]
