"""Reference algorithms (smhasher fasthash.cpp, MurmurHash3_x86_32), written once against a tiny
word algebra so that the same text runs on python ints (executable oracle, validated against the
vectors quoted in the repository's tests and well-known MurmurHash3 vectors) and on z3
bit-vectors (specification side of the C11 contracts)."""
import z3

FH_M = 0x880355F21E6D1965
FH_MIX = 0x2127599BF4325C37
MM_C1, MM_C2, MM_C3 = 0xCC9E2D51, 0x1B873593, 0xE6546B64
MM_F1, MM_F2 = 0x85EBCA6B, 0xC2B2AE35


class PyAlg:
    """w-bit words as python ints"""

    def __init__(self, w):
        self.w, self.mask = w, (1 << w) - 1

    def c(self, v):
        return v & self.mask

    def xor(self, a, b):
        return (a ^ b) & self.mask

    def or_(self, a, b):
        return (a | b) & self.mask

    def mul(self, a, b):
        return (a * b) & self.mask

    def add(self, a, b):
        return (a + b) & self.mask

    def sub(self, a, b):
        return (a - b) & self.mask

    def shr(self, a, n):
        return (a & self.mask) >> n

    def shl(self, a, n):
        return (a << n) & self.mask


class Z3Alg:
    def __init__(self, w):
        self.w = w

    def c(self, v):
        return z3.BitVecVal(v, self.w)

    def xor(self, a, b):
        return a ^ b

    def or_(self, a, b):
        return a | b

    def mul(self, a, b):
        return a * b

    def add(self, a, b):
        return a + b

    def sub(self, a, b):
        return a - b

    def shr(self, a, n):
        return z3.LShR(a, z3.BitVecVal(n, self.w))

    def shl(self, a, n):
        return a << z3.BitVecVal(n, self.w)


# ------------------------------------------------------------------ FastHash
def fh_mix(A, h):
    h = A.xor(h, A.shr(h, 23))
    h = A.mul(h, A.c(FH_MIX))
    h = A.xor(h, A.shr(h, 47))
    return h


def fh_init(A, length, seed):
    return A.xor(seed, A.mul(length, A.c(FH_M)))


def fh_step(A, h, block):
    return A.mul(A.xor(h, fh_mix(A, block)), A.c(FH_M))


def fasthash64_py(data: bytes, seed: int) -> int:
    A = PyAlg(64)
    n = len(data)
    h = fh_init(A, A.c(n), A.c(seed))
    nb = n // 8
    for i in range(nb):
        h = fh_step(A, h, int.from_bytes(data[8 * i : 8 * i + 8], "little"))
    t = n & 7
    if t:
        v = 0
        for j in reversed(range(t)):  # reference: v ^= (uint64_t)pos2[j] << 8j, highest first
            v ^= data[8 * nb + j] << (8 * j)
        h = fh_step(A, h, v)
    return fh_mix(A, h)


def fasthash32_py(data: bytes, seed: int) -> int:
    h = fasthash64_py(data, seed)
    return (h - (h >> 32)) & 0xFFFFFFFF


# ------------------------------------------------------------------ MurmurHash3 x86_32
def rotl32(A, x, r):
    return A.or_(A.shl(x, r), A.shr(x, 32 - r))


def mm_k(A, k1):
    k1 = A.mul(k1, A.c(MM_C1))
    k1 = rotl32(A, k1, 15)
    return A.mul(k1, A.c(MM_C2))


def mm_step(A, h, block):
    h = A.xor(h, mm_k(A, block))
    h = rotl32(A, h, 13)
    return A.add(A.mul(h, A.c(5)), A.c(MM_C3))


def mm_fmix(A, h):
    h = A.xor(h, A.shr(h, 16))
    h = A.mul(h, A.c(MM_F1))
    h = A.xor(h, A.shr(h, 13))
    h = A.mul(h, A.c(MM_F2))
    h = A.xor(h, A.shr(h, 16))
    return h


def murmur3_py(data: bytes, seed: int) -> int:
    A = PyAlg(32)
    n = len(data)
    h = A.c(seed)
    nb = n // 4
    for i in range(nb):
        h = mm_step(A, h, int.from_bytes(data[4 * i : 4 * i + 4], "little"))
    t = n & 3
    if t:
        k1 = 0
        for j in reversed(range(t)):
            k1 ^= data[4 * nb + j] << (8 * j)
        h = A.xor(h, mm_k(A, k1))
    h = A.xor(h, A.c(n))
    return mm_fmix(A, h)
