"""Sidecar contracts: base class and registry.

A contract is keyed by '<module>.<function>' of the tree under test.  Clauses are *named*;
requires/ensures/invariants are python generators yielding (name, z3 formula) built from a
Frame (see engine.Frame).  `ghosts` introduces specification-only constants (e.g. "the minimum
of the key's counters before the call"): on the proof side they are fresh constants constrained
by their defining formulas, at call sites they are fresh constants for which definition *and*
ensures are assumed (sound when the defining formulas have exactly one solution; each ghost
states why that is so in `ghost_note`).
"""
REGISTRY = {}


class Contract:
    name = None
    mode = "int"
    modifies = ()
    loops = {}
    raises = None
    ghost_note = ""
    # shapes used for the concrete-shape (quantifier-free) refutation pass: list of dicts
    small_shapes = ()

    def requires(self, F):
        return ()

    def ghosts(self, F):
        """-> list of (name, z3 sort, [defining formulas using F.g.<name>])"""
        return ()

    def ghost_defs(self, F):
        """defining formulas of the ghosts / instances of definitional axioms of spec functions"""
        return ()

    def post_defs(self, F):
        """defining formulas of ghosts that name a function of the *post* state (assumed at the
        function's return on the proof side, and after the call at call sites)"""
        return ()

    def call_defs(self, F):
        """definitional facts a *caller* may assume (default: the same as ghost_defs)"""
        return self.ghost_defs(F)

    def ensures(self, F):
        return ()

    # what a *caller* may assume / must establish; by default the same clauses
    def call_requires(self, F, mode):
        return self.requires(F)

    def call_ensures(self, F, mode):
        return self.ensures(F)


def register(cls):
    inst = cls()
    assert inst.name, cls
    key = inst.name + ("#" + inst.summary_for if getattr(inst, "summary_for", None) else "")
    REGISTRY[key] = inst
    return cls
