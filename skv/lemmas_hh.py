"""Lemma layer for the heavy-hitter sketch (C03, C04, C18-hh): obligations over the clauses of the
heavyhitters._add / _merge / _max_count contracts (functions add_cell / merge_cell / stores).

Identities are an abstract sort (Int): IDL(x) = length, IDB(x, j) = j-th byte, HID(x) = the
identity of the hashed byte string (first min(len, max_key_len) bytes).  Extensionality of
identities (equal length and bytes => equal identity) is the only axiom about them.
Ghost state: f(x) total requested multiplicity of identity x; S(r,c) total multiplicity of adds
mapping to cell (r,c); N = total multiplicity (n_added), with S(r,c1)+S(r,c2) <= N for c1 != c2.
"""
import z3
from .lemma import LFrame, clauses, _Key
from .contracts import heavyhitters as H
from .contracts.countmin import MAX32, TWO64, zmin, wrap64
from .contracts.hashes import FH64

I = z3.IntSort()
B = z3.BoolSort()
IDL = z3.Function("IDL", I, I)
IDB = z3.Function("IDB", I, I, I)
HID = z3.Function("HID", I, I)


def fn(name, n):
    return z3.Function(name, *([I] * (n + 1)))


class LKey(_Key):
    """lemma-side key: an identity x (already truncated to max_key_len)"""

    def __init__(self, x):
        self.x = x
        self.len = IDL(x)
        self.kid = HID(x)

    def __call__(self, j):
        return IDB(self.x, j)

    def slice_kid(self, sem, start, n):
        return HID(self.x)


class Tbl:
    def __init__(self, tag):
        self.lhh, self.lhh_count, self.key_lens = fn("lhh" + tag, 3), fn("cnt" + tag, 2), fn("kl" + tag, 2)


class Env:
    def __init__(self):
        self.width, self.depth, self.mkl = z3.Ints("width depth max_key_len")
        self.base = [self.width > 0, self.depth > 0, self.mkl >= 1, self.mkl <= 255]
        x, y, j = z3.Ints("ex ey ej")
        self.idwf = z3.ForAll([x], z3.And(IDL(x) >= 0, IDL(x) <= self.mkl), patterns=[IDL(x)])

    def col(self, x, r):
        return FH64(HID(x), r) % self.width

    def typed(self, t):
        r, c, j = z3.Ints("tr tc tj")
        return [
            z3.ForAll([r, c], z3.And(t.lhh_count(r, c) >= 0, t.lhh_count(r, c) <= MAX32), patterns=[t.lhh_count(r, c)]),
            z3.ForAll([r, c], z3.And(t.key_lens(r, c) >= 0, t.key_lens(r, c) <= 255), patterns=[t.key_lens(r, c)]),
        ]

    def frame(self, scalars, arrays, keys=None, res=None, ghosts=None):
        sc = {"width": self.width, "depth": self.depth, "max_key_len": self.mkl, "uint_maxval": z3.IntVal(MAX32)}
        sc.update(scalars)
        return LFrame("int", sc, arrays, keys, res, ghosts)

    def arrays(self, pre, post, prefix=""):
        sh3, sh2 = (self.depth, self.width, self.mkl), (self.depth, self.width)
        return {
            prefix + "lhh": (pre.lhh, post.lhh if post else None, sh3),
            prefix + "lhh_count": (pre.lhh_count, post.lhh_count if post else None, sh2),
            prefix + "key_lens": (pre.key_lens, post.key_lens if post else None, sh2),
        }

    def ST(self, F, t, r, c, x):
        """cell (r,c) of table t stores identity x  (the contract's own `stores`)"""
        k = LKey(x)
        return H.stores(F, t.lhh, t.key_lens, r, c, IDL(x), lambda j: z3.If(z3.And(j >= 0, j < IDL(x)), IDB(x, j), 0))


def ext_instances(E, F, t, r, c, ids):
    """extensionality of identities, instantiated: two identities stored in one cell are equal"""
    out = []
    for i, x in enumerate(ids):
        for y in ids[i + 1 :]:
            out.append(z3.Implies(z3.And(E.ST(F, t, r, c, x), E.ST(F, t, r, c, y)), x == y))
    return out


def add_setup(E, tagp="0", tagq="1"):
    pre, post = Tbl(tagp), Tbl(tagq)
    x0, V = z3.Ints("x0 V")
    Vc = zmin(V, MAX32)
    n0, n1 = fn("hn0", 1), fn("hn1", 1)
    arrays = E.arrays(pre, post)
    arrays["n_added_records"] = (n0, n1, (z3.IntVal(2),))
    match = z3.Function("hmatch", I, B)
    F = E.frame({"value": Vc}, arrays, keys={"key": LKey(x0)}, ghosts={"match": match})
    c = H.HHAdd()
    hy = list(c.ghost_defs(F)) + [f for n, f in clauses(c.ensures(F))]
    return pre, post, x0, V, Vc, F, hy, n0, n1


def merge_setup(E):
    a0, a1, b = Tbl("a0"), Tbl("a1"), Tbl("b")
    na0, na1, nb = fn("hna0", 1), fn("hna1", 1), fn("hnb", 1)
    arrays = E.arrays(a0, a1)
    arrays.update(E.arrays(b, None, "other_"))
    arrays["n_added_records"] = (na0, na1, (z3.IntVal(2),))
    arrays["other_n_added_records"] = (nb, None, (z3.IntVal(2),))
    F = E.frame({}, arrays)
    hy = [f for n, f in clauses(H.HHMerge().ensures(F))]
    return a0, a1, b, F, hy, na0, na1, nb


def maxcount_hyps(E, t, x, res):
    arrays = E.arrays(t, t)
    F = E.frame({"key_len": IDL(x)}, arrays, keys={"key": LKey(x)}, res=res)
    return F, [f for n, f in clauses(H.HHMaxCount().ensures(F))]


def lemmas_c03():
    E = Env()
    out = []
    f = fn("hf", 1)
    r, c, x, y = z3.Ints("r c x y")
    rng = [r >= 0, r < E.depth, c >= 0, c < E.width]

    def I3(F, t, ff):
        qr, qc, qx = z3.Ints("qr qc qx")
        return z3.ForAll([qr, qc, qx], z3.Implies(z3.And(qr >= 0, qr < E.depth, qc >= 0, qc < E.width, E.ST(F, t, qr, qc, qx)), t.lhh_count(qr, qc) <= ff(qx)))

    fpos = z3.ForAll([x], f(x) >= 0, patterns=[f(x)])
    # --- init: all counts zero
    Z = Tbl("z")
    F0 = E.frame({}, E.arrays(Z, None))
    zero = z3.ForAll([r, c], Z.lhh_count(r, c) == 0)
    out.append(("c03:init", E.base + [zero, fpos] + rng + [E.ST(F0, Z, r, c, x)], Z.lhh_count(r, c) <= f(x)))
    # --- add
    pre, post, x0, V, Vc, F, hy, n0, n1 = add_setup(E)
    f1 = lambda k: f(k) + z3.If(k == x0, V, 0)
    base = E.base + [E.idwf, V >= 0, fpos] + E.typed(pre) + E.typed(post)
    goal = post.lhh_count(r, c) <= f1(x)
    ext = ext_instances(E, F, pre, r, c, [x, x0]) + ext_instances(E, F, post, r, c, [x, x0])
    out.append(("c03:add-preserves-count<=true", base + hy + [I3(F, pre, f)] + rng + [E.ST(F, post, r, c, x)] + ext, goal))
    # --- merge
    a0, a1, b, Fm, hm, na0, na1, nb = merge_setup(E)
    fa, fb = fn("hfa", 1), fn("hfb", 1)
    fposab = [z3.ForAll([x], fa(x) >= 0, patterns=[fa(x)]), z3.ForAll([x], fb(x) >= 0, patterns=[fb(x)])]
    basem = E.base + [E.idwf] + fposab + E.typed(a0) + E.typed(a1) + E.typed(b)
    out.append(("c03:merge-preserves-count<=true", basem + hm + [I3(Fm, a0, fa), I3(Fm, b, fb)] + rng + [E.ST(Fm, a1, r, c, x)], a1.lhh_count(r, c) <= fa(x) + fb(x)))
    # --- hh[key] <= true count ; never-added key has count 0
    res = z3.Int("res")
    Fq, hq = maxcount_hyps(E, pre, x, res)
    out.append(("c03:hh[key]<=true-count", E.base + [E.idwf, fpos] + E.typed(pre) + hq + [I3(Fq, pre, f)], res <= f(x)))
    out.append(("c03:never-added-key-has-count-0", E.base + [E.idwf, fpos] + E.typed(pre) + hq + [I3(Fq, pre, f), f(x) == 0], res == 0))
    # reported (key,count) pairs are stored identities whose value is hh[key] (glue: generate_candidate_set)
    return out, base + hy, basem + hm


def lemmas_c04():
    E = Env()
    out = []
    f, S = fn("hf", 1), fn("hS", 2)
    r, c, x, y = z3.Ints("r c x y")
    N = z3.Int("N")

    def PHI(F, t, xx, rr):
        cc = E.col(xx, rr)
        return z3.If(E.ST(F, t, rr, cc, xx), t.lhh_count(rr, cc), -t.lhh_count(rr, cc))

    def I4(F, t, ff, SS):
        qx, qr = z3.Ints("qx qr")
        return z3.ForAll([qx, qr], z3.Implies(z3.And(qr >= 0, qr < E.depth), PHI(F, t, qx, qr) >= 2 * ff(qx) - SS(qr, E.col(qx, qr))))

    def I5(t, SS):  # a count never exceeds the traffic of its cell
        qr, qc = z3.Ints("qr qc")
        return z3.ForAll([qr, qc], z3.Implies(z3.And(qr >= 0, qr < E.depth, qc >= 0, qc < E.width), t.lhh_count(qr, qc) <= SS(qr, qc)))

    fpos = z3.ForAll([x], f(x) >= 0, patterns=[f(x)])
    Spos = z3.ForAll([r, c], S(r, c) >= 0, patterns=[S(r, c)])
    # --- init
    Z = Tbl("z")
    F0 = E.frame({}, E.arrays(Z, None))
    zero = z3.ForAll([r, c], Z.lhh_count(r, c) == 0)
    zf = lambda k: z3.IntVal(0)
    zS = lambda a, b: z3.IntVal(0)
    out.append(("c04:init", E.base + [zero, r >= 0, r < E.depth], PHI(F0, Z, x, r) >= 2 * zf(x) - zS(r, E.col(x, r))))
    # --- add of identity x0 with multiplicity V, absent saturation
    pre, post, x0, V, Vc, F, hy, n0, n1 = add_setup(E)
    f1 = lambda k: f(k) + z3.If(k == x0, V, 0)
    S1 = lambda rr, cc: S(rr, cc) + z3.If(cc == E.col(x0, rr), V, 0)
    nosat = [V >= 0, V <= MAX32, pre.lhh_count(r, E.col(x0, r)) + V <= MAX32]
    base = E.base + [E.idwf, fpos, Spos] + E.typed(pre) + E.typed(post)
    cc = E.col(x, r)
    ext = ext_instances(E, F, pre, r, cc, [x, x0]) + ext_instances(E, F, post, r, cc, [x, x0])
    out.append(("c04:add-preserves-potential-bound", base + hy + nosat + [I4(F, pre, f, S), r >= 0, r < E.depth] + ext, PHI(F, post, x, r) >= 2 * f1(x) - S1(r, cc)))
    rngc = [r >= 0, r < E.depth, c >= 0, c < E.width]
    out.append(("c04:add-preserves-count<=cell-traffic", base + hy + [V >= 0, I5(pre, S)] + rngc, post.lhh_count(r, c) <= S1(r, c)))
    # --- merge, absent saturation: the potential is super-additive
    a0, a1, b, Fm, hm, na0, na1, nb = merge_setup(E)
    fa, fb, Sa, Sb = fn("hfa", 1), fn("hfb", 1), fn("hSa", 2), fn("hSb", 2)
    basem = E.base + [E.idwf] + E.typed(a0) + E.typed(a1) + E.typed(b)
    nosatm = [a0.lhh_count(r, cc) + b.lhh_count(r, cc) <= MAX32]
    # identities possibly stored in the cell: x, plus whatever a0 / b store (skolemised by ya, yb)
    ya, yb = z3.Ints("ya yb")
    extm = ext_instances(E, Fm, a0, r, cc, [x, ya]) + ext_instances(E, Fm, b, r, cc, [x, yb])
    out.append(("c04:merge-potential-superadditive", basem + hm + nosatm + [r >= 0, r < E.depth], PHI(Fm, a1, x, r) >= PHI(Fm, a0, x, r) + PHI(Fm, b, x, r)))
    out.append(("c04:merge-preserves-count<=cell-traffic", basem + hm + [I5(a0, Sa), I5(b, Sb)] + rngc, a1.lhh_count(r, c) <= Sa(r, c) + Sb(r, c)))
    # --- consequences
    res = z3.Int("res")
    Fq, hq = maxcount_hyps(E, pre, x, res)
    bound = 2 * f(x) - S(r, E.col(x, r))
    hyq = E.base + [E.idwf, fpos, Spos] + E.typed(pre) + hq + [I4(Fq, pre, f, S), r >= 0, r < E.depth]
    out.append(("c04:hh[key]>=2f-W_r-when-positive", hyq + [bound > 0], res >= bound))
    out.append(("c04:positive-bound=>cell-stores-the-key", hyq + [bound > 0], E.ST(Fq, pre, r, E.col(x, r), x)))
    # majority key is reported with the largest count: any other identity y reported from row r has a
    # smaller count than x's cell in the same row
    resy = z3.Int("resy")
    cy = z3.Int("cy")
    rowsum = z3.ForAll([r, c, cy], z3.Implies(z3.And(r >= 0, r < E.depth, c >= 0, c < E.width, cy >= 0, cy < E.width, c != cy), S(r, c) + S(r, cy) <= N), patterns=[z3.MultiPattern(S(r, c), S(r, cy))])
    cellN = z3.ForAll([r, c], z3.Implies(z3.And(r >= 0, r < E.depth, c >= 0, c < E.width), S(r, c) <= N), patterns=[S(r, c)])
    Fy, hqy = maxcount_hyps(E, pre, y, resy)
    cxr = E.col(x, r)
    exty = ext_instances(E, Fq, pre, r, cxr, [x, y])
    out.append(
        (
            "c04:majority-key-has-the-strictly-largest-count",
            hyq + hqy + [I5(pre, S), rowsum, cellN, 2 * f(x) > N, x != y, resy > 0]
            # y's reported count is attained in row r (the row is universally quantified by skolemisation)
            + [E.ST(Fq, pre, r, E.col(y, r), y), resy == pre.lhh_count(r, E.col(y, r))] + exty,
            res > resy,
        )
    )
    out.append(("c04:majority-count>=2f-N", hyq + [S(r, cxr) <= N, 2 * f(x) > N], res >= 2 * f(x) - N))  # S(r,c) <= N: instance of the row-sum fact
    return out, base + hy + nosat, basem + hm


def lemmas_c18():
    """a count that fills its cells alone only grows and clamps at 2^32-1"""
    E = Env()
    out = []
    r = z3.Int("r")
    pre, post, x0, V, Vc, F, hy, n0, n1 = add_setup(E)
    base = E.base + [E.idwf, V >= 0] + E.typed(pre) + E.typed(post) + hy
    c0 = E.col(x0, r)
    alone = [r >= 0, r < E.depth, E.ST(F, pre, r, c0, x0)]
    out.append(("c18:hh-own-cell-count-is-min(count+v,ceiling)", base + alone, post.lhh_count(r, c0) == zmin(pre.lhh_count(r, c0) + Vc, MAX32)))
    out.append(("c18:hh-own-cell-never-shrinks", base + alone, post.lhh_count(r, c0) >= pre.lhh_count(r, c0)))
    out.append(("c18:hh-own-cell-keeps-identity", base + alone, E.ST(F, post, r, c0, x0)))
    a0, a1, b, Fm, hm, na0, na1, nb = merge_setup(E)
    c = z3.Int("c")
    x = z3.Int("x")
    basem = E.base + [E.idwf] + E.typed(a0) + E.typed(a1) + E.typed(b) + hm
    same = [r >= 0, r < E.depth, c >= 0, c < E.width, E.ST(Fm, a0, r, c, x), E.ST(Fm, b, r, c, x)]
    out.append(("c18:hh-merge-same-key-is-min(sum,ceiling)", basem + same, a1.lhh_count(r, c) == zmin(a0.lhh_count(r, c) + b.lhh_count(r, c), MAX32)))
    return out


def lemmas_c12_hh():
    """add(key, v) equals v single adds (heavy hitters), 0 <= v <= 2^32-1: closed form of the key's
    cell in a row after j unit adds, from the start cell (count c0, identity id0):
       cell stores the key:  count min(c0 + j, MAX32), identity unchanged
       otherwise:            j <= c0: count c0 - j, identity unchanged;  j > c0: count j - c0, identity = key"""
    E = Env()
    out = []
    T0, Ta, Tb, T1 = Tbl("s0"), Tbl("sa"), Tbl("sb"), Tbl("s1")
    x0, j, v, r, q = z3.Ints("x0 j v r q")
    c = E.col(x0, r)
    F0 = E.frame({}, E.arrays(T0, None))
    match0 = E.ST(F0, T0, r, c, x0)
    c0 = T0.lhh_count(r, c)
    kb = lambda jj: z3.If(z3.And(jj >= 0, jj < IDL(x0)), IDB(x0, jj), 0)

    def closed(t, jj):
        """table t holds the closed form for j = jj in cell (r, c)"""
        keep = z3.Or(match0, jj <= c0)
        cnt = z3.If(match0, zmin(c0 + jj, MAX32), z3.If(jj <= c0, c0 - jj, jj - c0))
        idb = lambda b: z3.If(keep, T0.lhh(r, c, b), kb(b))
        idl = z3.If(keep, T0.key_lens(r, c), IDL(x0))
        return cnt, idb, idl

    def is_closed(t, jj):
        cnt, idb, idl = closed(t, jj)
        qb = z3.Int("qb")
        return [t.lhh_count(r, c) == cnt, t.key_lens(r, c) == idl, z3.ForAll([qb], z3.Implies(z3.And(qb >= 0, qb < E.mkl), t.lhh(r, c, qb) == idb(qb)))]

    base = E.base + [E.idwf, r >= 0, r < E.depth] + E.typed(T0)
    # unit step a -> b with value 1
    n0, n1 = fn("cn0", 1), fn("cn1", 1)
    arrays = E.arrays(Ta, Tb)
    arrays["n_added_records"] = (n0, n1, (z3.IntVal(2),))
    match = z3.Function("cmatch", I, B)
    Fu = E.frame({"value": z3.IntVal(1)}, arrays, keys={"key": LKey(x0)}, ghosts={"match": match})
    hu = list(H.HHAdd().ghost_defs(Fu)) + [f for n, f in clauses(H.HHAdd().ensures(Fu))]
    hy = base + E.typed(Ta) + E.typed(Tb) + [j >= 0, j + 1 <= MAX32] + is_closed(Ta, j) + hu
    cnt1, idb1, idl1 = closed(Tb, j + 1)
    out.append(("c12:hh:unit-add-advances-the-closed-form (count)", hy, Tb.lhh_count(r, c) == cnt1))
    out.append(("c12:hh:unit-add-advances-the-closed-form (length)", hy, Tb.key_lens(r, c) == idl1))
    out.append(("c12:hh:unit-add-advances-the-closed-form (bytes)", hy + [q >= 0, q < E.mkl], Tb.lhh(r, c, q) == idb1(q)))
    # bulk add with value v
    arrays2 = E.arrays(T0, T1)
    m0, m1 = fn("cm0", 1), fn("cm1", 1)
    arrays2["n_added_records"] = (m0, m1, (z3.IntVal(2),))
    matchb = z3.Function("cmatchb", I, B)
    Fb = E.frame({"value": v}, arrays2, keys={"key": LKey(x0)}, ghosts={"match": matchb})
    hb = base + E.typed(T1) + [v >= 0, v <= MAX32] + list(H.HHAdd().ghost_defs(Fb)) + [f for n, f in clauses(H.HHAdd().ensures(Fb))]
    cntv, idbv, idlv = closed(T1, v)
    out.append(("c12:hh:bulk-add-is-the-closed-form-at-v (count)", hb, T1.lhh_count(r, c) == cntv))
    out.append(("c12:hh:bulk-add-is-the-closed-form-at-v (length)", hb, T1.key_lens(r, c) == idlv))
    out.append(("c12:hh:bulk-add-is-the-closed-form-at-v (bytes)", hb + [q >= 0, q < E.mkl], T1.lhh(r, c, q) == idbv(q)))
    out.append(("c12:hh:n_added-bulk==n_added+v", hb + [m0(0) >= 0, m0(0) + v < TWO64], m1(0) == m0(0) + v))
    out.append(("c12:hh:n_added-unit-step", hy + [n0(0) >= 0, n0(0) + 1 < TWO64], n1(0) == n0(0) + 1))
    return out
