"""Primitive semantics of Numba typed-IR operations (the 'primitive table' of DESIGN 1.1).

Two encodings of machine integers, both bit-precise:
  * 'bv'  : z3 bit-vectors of the operand width (hashes, leading-zero count, HLL kernels)
  * 'int' : mathematical integers with explicit wrap-around (tables, counters, ghost sums)
float64 is encoded as z3 Real in both modes (assumption "float = real", recorded by callers).

Every function returns plain z3 terms; side obligations (no signed overflow [LLVM nsw],
non-zero divisor, shift amount < width, float->int in range) are appended to `obl`,
a list of (kind, formula).  Transcribed from numba/cpython/numbers.py and core/base.py casts.
"""
import z3
from numba.core import types as nt

_FPTOINT = [0]


class Unsupported(Exception):
    pass


INT, BV = "int", "bv"


def unlit(ty):
    return nt.unliteral(ty)


def is_int(ty):
    return isinstance(ty, nt.Integer) and not isinstance(ty, nt.Boolean)


def is_float(ty):
    return isinstance(ty, nt.Float)


def is_bool(ty):
    return isinstance(ty, nt.Boolean)


def int_range(ty):
    w = ty.bitwidth
    if ty.signed:
        return -(1 << (w - 1)), (1 << (w - 1)) - 1
    return 0, (1 << w) - 1


class Sc:
    """Scalar value: z3 term + numba type."""

    __slots__ = ("t", "ty")

    def __init__(self, t, ty):
        self.t = t
        self.ty = ty

    def __repr__(self):
        return "Sc(%s:%s)" % (self.t, self.ty)


def simp(t):
    return z3.simplify(t)


def as_py(t):
    """Concrete python value of a numeral term, else None."""
    t = z3.simplify(t)
    if z3.is_int_value(t):
        return t.as_long()
    if z3.is_bv_value(t):
        return t.as_long()
    if z3.is_true(t):
        return True
    if z3.is_false(t):
        return False
    if z3.is_rational_value(t):
        return t.as_fraction()
    return None


class Sem:
    def __init__(self, mode):
        assert mode in (INT, BV)
        self.mode = mode
        self.assumptions = set()  # names of modelling assumptions actually used

    # ---------------------------------------------------------------- sorts / constants
    def sort(self, ty):
        ty = unlit(ty)
        if is_bool(ty):
            return z3.BoolSort()
        if is_float(ty):
            return z3.RealSort()
        if is_int(ty):
            return z3.IntSort() if self.mode == INT else z3.BitVecSort(ty.bitwidth)
        raise Unsupported("sort of %s" % ty)

    def const(self, v, ty):
        ty = unlit(ty)
        if is_bool(ty):
            return Sc(z3.BoolVal(bool(v)), ty)
        if is_float(ty):
            return Sc(z3.RealVal(repr(float(v))) if not isinstance(v, int) else z3.RealVal(v), ty)
        if is_int(ty):
            lo, hi = int_range(ty)
            v = int(v)
            if not lo <= v <= hi:  # python int constant stored in a too-small type: wraps
                w = 1 << ty.bitwidth
                v = (v - lo) % w + lo
            if self.mode == INT:
                return Sc(z3.IntVal(v), ty)
            return Sc(z3.BitVecVal(v, ty.bitwidth), ty)
        raise Unsupported("const of %s" % ty)

    def fresh(self, name, ty):
        """fresh symbolic scalar of type ty -> (Sc, [typing facts])"""
        ty = unlit(ty)
        t = z3.Const(name, self.sort(ty))
        return Sc(t, ty), self.range_facts(t, ty)

    def range_facts(self, t, ty):
        ty = unlit(ty)
        if self.mode == INT and is_int(ty):
            lo, hi = int_range(ty)
            return [t >= lo, t <= hi]
        return []

    # ---------------------------------------------------------------- casts
    def wrap(self, t, ty):
        """INT mode: reduce a mathematical integer to the value range of ty (two's complement)."""
        lo, hi = int_range(ty)
        w = 1 << ty.bitwidth
        if ty.signed:
            return (t - lo) % w + lo
        return t % w

    def cast(self, v, toty, obl=None):
        fromty, toty = unlit(v.ty), unlit(toty)
        if fromty == toty:
            return Sc(v.t, toty)
        if is_bool(fromty) and is_int(toty):
            one = self.const(1, toty).t
            zero = self.const(0, toty).t
            return Sc(z3.If(v.t, one, zero), toty)
        if is_bool(toty) and is_int(fromty):
            return Sc(v.t != self.const(0, fromty).t, toty)
        if is_int(fromty) and is_int(toty):
            if self.mode == INT:
                flo, fhi = int_range(fromty)
                tlo, thi = int_range(toty)
                if tlo <= flo and fhi <= thi:
                    return Sc(v.t, toty)
                w = 1 << toty.bitwidth
                if fromty.bitwidth == toty.bitwidth:
                    if toty.signed:  # unsigned -> signed reinterpret
                        return Sc(z3.If(v.t > thi, v.t - w, v.t), toty)
                    return Sc(z3.If(v.t < 0, v.t + w, v.t), toty)
                if not toty.signed and fromty.signed and toty.bitwidth > fromty.bitwidth:
                    return Sc(z3.If(v.t < 0, v.t + w, v.t), toty)
                return Sc(self.wrap(v.t, toty), toty)
            fw, tw = fromty.bitwidth, toty.bitwidth
            if tw == fw:
                return Sc(v.t, toty)
            if tw < fw:
                return Sc(z3.Extract(tw - 1, 0, v.t), toty)
            if fromty.signed:
                return Sc(z3.SignExt(tw - fw, v.t), toty)
            return Sc(z3.ZeroExt(tw - fw, v.t), toty)
        if is_int(fromty) and is_float(toty):
            self.assumptions.add("int->float64 conversion treated as exact (|x| <= 2^53 not checked)")
            if self.mode == INT:
                return Sc(z3.ToReal(v.t), toty)
            return Sc(z3.ToReal(z3.BV2Int(v.t, is_signed=fromty.signed)), toty)
        if is_float(fromty) and is_float(toty):
            return Sc(v.t, toty)
        if is_float(fromty) and is_int(toty):
            # fptoui / fptosi: truncation toward zero; out-of-range is poison -> obligation
            self.assumptions.add("float64 treated as mathematical real")
            lo, hi = int_range(toty)
            tr = z3.If(v.t >= 0, z3.ToInt(v.t), -z3.ToInt(-v.t))
            if obl is not None:
                obl.append(("fptoint-in-range", z3.And(tr >= lo, tr <= hi)))
            if self.mode == INT:
                # LLVM's fptoui / fptosi are undefined outside the target range (Numba narrows through
                # them): the result is the truncation when it fits and an unspecified value of the
                # type otherwise - never silently "the real number"
                _FPTOINT[0] += 1
                junk = z3.Int("fptoint!%d" % _FPTOINT[0])
                return Sc(z3.If(z3.And(tr >= lo, tr <= hi), tr, z3.If(z3.And(junk >= lo, junk <= hi), junk, z3.IntVal(lo))), toty)
            return Sc(z3.Int2BV(tr, toty.bitwidth), toty)
        raise Unsupported("cast %s -> %s" % (fromty, toty))

    # ---------------------------------------------------------------- integer binops
    def binop(self, op, a, b, sig, obl):
        """op: python operator name ('add','sub',...,'lt',...); a,b: Sc with *actual* types;
        sig: numba Signature resolved by the compiler."""
        aty, bty = unlit(sig.args[0]), unlit(sig.args[1])
        rty = unlit(sig.return_type)
        a = self.cast(a, aty, obl)
        b = self.cast(b, bty, obl)
        if op in ("lt", "le", "gt", "ge", "eq", "ne"):
            return self._compare(op, a, b)
        if is_float(rty):
            return self._float_binop(op, a, b, rty, obl)
        if not is_int(rty):
            raise Unsupported("binop %s -> %s" % (op, rty))
        if op in ("lshift", "rshift"):
            signed_val = aty.signed
            a = self.cast(a, rty, obl)
            b = self.cast(b, rty, obl)
            return self._shift(op, a, b, rty, signed_val, obl)
        a = self.cast(a, rty, obl)
        b = self.cast(b, rty, obl)
        if self.mode == BV:
            return self._bv_arith(op, a, b, rty, obl)
        return self._int_arith(op, a, b, rty, obl)

    def _compare(self, op, a, b):
        ty = unlit(a.ty)
        if unlit(b.ty) != ty:
            raise Unsupported("comparison of %s with %s" % (a.ty, b.ty))
        x, y = a.t, b.t
        bool_ = nt.boolean
        if op == "eq":
            return Sc(x == y, bool_)
        if op == "ne":
            return Sc(x != y, bool_)
        if is_float(ty) or self.mode == INT or is_bool(ty):
            r = {"lt": x < y, "le": x <= y, "gt": x > y, "ge": x >= y}[op]
            return Sc(r, bool_)
        if ty.signed:
            r = {"lt": x < y, "le": x <= y, "gt": x > y, "ge": x >= y}[op]
        else:
            r = {"lt": z3.ULT(x, y), "le": z3.ULE(x, y), "gt": z3.UGT(x, y), "ge": z3.UGE(x, y)}[op]
        return Sc(r, bool_)

    def _float_binop(self, op, a, b, rty, obl):
        self.assumptions.add("float64 treated as mathematical real")
        a = self.cast(a, rty, obl)
        b = self.cast(b, rty, obl)
        x, y = a.t, b.t
        if op == "add":
            return Sc(x + y, rty)
        if op == "sub":
            return Sc(x - y, rty)
        if op == "mul":
            return Sc(x * y, rty)
        if op == "truediv":
            obl.append(("float-div-nonzero", y != 0))
            return Sc(x / y, rty)
        if op == "pow":
            return Sc(POW(x, y), rty)
        raise Unsupported("float binop %s" % op)

    def _bv_arith(self, op, a, b, rty, obl):
        x, y = a.t, b.t
        s = rty.signed
        if op == "add":
            if s:
                obl.append(("nsw-add", z3.And(z3.BVAddNoOverflow(x, y, True), z3.BVAddNoUnderflow(x, y))))
            return Sc(x + y, rty)
        if op == "sub":
            if s:
                obl.append(("nsw-sub", z3.And(z3.BVSubNoOverflow(x, y), z3.BVSubNoUnderflow(x, y, True))))
            return Sc(x - y, rty)
        if op == "mul":
            if s:
                obl.append(("nsw-mul", z3.And(z3.BVMulNoOverflow(x, y, True), z3.BVMulNoUnderflow(x, y))))
            return Sc(x * y, rty)
        if op == "and_":
            return Sc(x & y, rty)
        if op == "or_":
            return Sc(x | y, rty)
        if op == "xor":
            return Sc(x ^ y, rty)
        if op in ("floordiv", "mod"):
            obl.append(("div-nonzero", y != 0))
            if not s:
                return Sc(z3.UDiv(x, y) if op == "floordiv" else z3.URem(x, y), rty)
            # python floor semantics on signed operands
            q = x / y  # bvsdiv (truncating)
            r = z3.SRem(x, y)
            adj = z3.And(r != 0, (r < 0) != (y < 0))
            if op == "floordiv":
                return Sc(z3.If(adj, q - 1, q), rty)
            return Sc(z3.If(adj, r + y, r), rty)
        if op == "pow":
            k = as_py(y)
            if k is None or not 0 <= k <= 4:
                raise Unsupported("integer pow with non-constant exponent")
            r = z3.BitVecVal(1, rty.bitwidth)
            for _ in range(k):
                if s:
                    obl.append(("nsw-mul", z3.And(z3.BVMulNoOverflow(r, x, True), z3.BVMulNoUnderflow(r, x))))
                r = r * x
            return Sc(r, rty)
        raise Unsupported("bv op %s" % op)

    def _int_arith(self, op, a, b, rty, obl):
        x, y = a.t, b.t
        lo, hi = int_range(rty)
        w = 1 << rty.bitwidth
        s = rty.signed
        if op == "add":
            r = x + y
            if s:
                obl.append(("nsw-add", z3.And(r >= lo, r <= hi)))
                return Sc(r, rty)
            return Sc(z3.If(r > hi, r - w, r), rty)
        if op == "sub":
            r = x - y
            if s:
                obl.append(("nsw-sub", z3.And(r >= lo, r <= hi)))
                return Sc(r, rty)
            return Sc(z3.If(r < 0, r + w, r), rty)
        if op == "mul":
            r = x * y
            if s:
                obl.append(("nsw-mul", z3.And(r >= lo, r <= hi)))
                return Sc(r, rty)
            return Sc(r % w, rty)
        if op in ("floordiv", "mod"):
            obl.append(("div-nonzero", y != 0))
            # z3 div/mod are Euclidean; for y > 0 they coincide with python floor semantics.
            if s:
                # for y < 0: euclidean quotient q_e, python floor quotient = q_e - 1 when remainder != 0
                if op == "floordiv":
                    r = z3.If(y > 0, x / y, z3.If(x % y == 0, x / y, x / y - 1))
                    obl.append(("nsw-div", z3.And(r >= lo, r <= hi)))
                    return Sc(r, rty)
                r = z3.If(y > 0, x % y, z3.If(x % y == 0, 0, x % y + y))
                return Sc(r, rty)
            return Sc(x / y if op == "floordiv" else x % y, rty)
        if op == "pow":
            k = as_py(y)
            if k is None or not 0 <= k <= 4:
                raise Unsupported("integer pow with non-constant exponent")
            r = z3.IntVal(1)
            for _ in range(k):
                r = r * x
            if s:
                obl.append(("nsw-mul", z3.And(r >= lo, r <= hi)))
                return Sc(r, rty)
            return Sc(r % w, rty)
        if op in ("and_", "or_", "xor"):
            xa, ya = as_py(x), as_py(y)
            if xa is not None and ya is not None:
                f = {"and_": lambda p, q: p & q, "or_": lambda p, q: p | q, "xor": lambda p, q: p ^ q}[op]
                return self.const(f(xa % w, ya % w), rty)
            if op == "and_" and not s:
                for c, o in ((ya, x), (xa, y)):
                    if c is not None and c >= 0 and (c + 1) & c == 0:  # mask 2^k - 1
                        return Sc(o % (c + 1), rty)
            # symbolic bit operation in the integer encoding: an uninterpreted function of the operands
            # (sound: nothing is assumed about it except the result type's range); concrete-shape
            # refutation runs evaluate it on numerals
            f = z3.Function("BITOP_%s_%d" % (op, rty.bitwidth), z3.IntSort(), z3.IntSort(), z3.IntSort())
            self.assumptions.add("symbolic %s in int mode is uninterpreted" % op)
            return Sc(self.wrap(f(x, y), rty), rty)
        raise Unsupported("int op %s" % op)

    def _shift(self, op, a, b, rty, signed_val, obl):
        x, y = a.t, b.t
        bits = rty.bitwidth
        if self.mode == BV:
            obl.append(("shift-lt-width", z3.ULT(y, z3.BitVecVal(bits, bits))))
            if op == "lshift":
                return Sc(x << y, rty)
            return Sc((x >> y) if signed_val else z3.LShR(x, y), rty)
        k = as_py(y)
        if k is None:
            raise Unsupported("shift by symbolic amount in int mode")
        obl.append(("shift-lt-width", z3.BoolVal(0 <= k < bits)))
        if op == "lshift":
            return Sc(self.wrap(x * (1 << k), rty), rty)
        if signed_val and rty.signed:
            return Sc(x / (1 << k), rty)  # euclidean div by positive = floor = ashr
        if rty.signed:  # logical shift of a value held in a signed result type: not met in sketchnu
            raise Unsupported("lshr into signed type in int mode")
        return Sc(x / (1 << k), rty)

    # ---------------------------------------------------------------- unary
    def unary(self, op, a, sig, obl):
        rty = unlit(sig.return_type)
        a = self.cast(a, unlit(sig.args[0]), obl)
        if op == "neg":
            if is_float(rty):
                return Sc(-a.t, rty)
            a = self.cast(a, rty, obl)
            if self.mode == INT:
                lo, hi = int_range(rty)
                if rty.signed:
                    obl.append(("nsw-neg", -a.t <= hi))
                    return Sc(-a.t, rty)
                return Sc(self.wrap(-a.t, rty), rty)
            if rty.signed:
                obl.append(("nsw-neg", z3.BVSNegNoOverflow(a.t)))
            return Sc(-a.t, rty)
        if op == "not_":
            return Sc(z3.Not(self.truth(a)), nt.boolean)
        if op == "invert" and self.mode == BV and is_int(rty):
            a = self.cast(a, rty, obl)
            return Sc(~a.t, rty)
        raise Unsupported("unary %s" % op)

    def truth(self, a):
        ty = unlit(a.ty)
        if is_bool(ty):
            return a.t
        if is_int(ty):
            return a.t != self.const(0, ty).t
        raise Unsupported("truth of %s" % ty)

    def minmax(self, which, vals, rty, obl):
        rty = unlit(rty)
        vs = [self.cast(v, rty, obl) for v in vals]
        acc = vs[0]
        for v in vs[1:]:
            if which == "min":
                c = self._compare("lt", v, acc).t
            else:
                c = self._compare("gt", v, acc).t
            acc = Sc(z3.If(c, v.t, acc.t), rty)
        return acc

    # index helpers (array indices are handled as intp = int64 after Numba's cast; unsigned index
    # types never wrap, signed negative indices wrap around once, as numba's fix_integer_index does)
    def index_term(self, v, dimlen):
        """v: Sc integer index, dimlen: term in index sort -> (term in index sort, in-bounds formula)"""
        ty = unlit(v.ty)
        if self.mode == INT:
            t = v.t
            if ty.signed:
                t = z3.If(t < 0, t + dimlen, t)
            return t, z3.And(t >= 0, t < dimlen)
        t = self.cast(v, nt.int64).t if ty.bitwidth < 64 else v.t
        if ty.signed:
            t = z3.If(t < 0, t + dimlen, t)
            return t, z3.And(t >= 0, t < dimlen)
        if ty.bitwidth == 64:
            # uint64 index reinterpreted as intp: must be < 2^63 and < dimlen (dimlen >= 0)
            return t, z3.And(z3.ULT(t, dimlen), dimlen >= 0)
        return t, z3.And(t >= 0, t < dimlen)

    def idx_const(self, n):
        return z3.IntVal(n) if self.mode == INT else z3.BitVecVal(n, 64)

    def idx_sort(self):
        return z3.IntSort() if self.mode == INT else z3.BitVecSort(64)

    def to_index(self, v):
        """integer scalar -> term in the index sort.  INT: the value itself; BV: 64 bits
        (zero-/sign-extended by the source type; a uint64 keeps its bits, callers pick ULT/SLT)"""
        if self.mode == INT:
            return v.t
        ty = unlit(v.ty)
        if ty.bitwidth == 64:
            return v.t
        return self.cast(v, nt.int64 if ty.signed else nt.uint64).t


# uninterpreted real functions shared by all float-as-real encodings
_R = z3.RealSort()
POW = z3.Function("POW", _R, _R, _R)
LN = z3.Function("LN", _R, _R)
EXP = z3.Function("EXP", _R, _R)
