"""Glue layer (front end B): hooks that model the assumed library contracts (SharedMemory, numpy
I/O, Counter, rng) for skv.pyexec, plus helpers to build symbolic sketch objects by *executing the
real constructors symbolically*.

Assumed contracts (listed in every evidence file that uses this module):
  * SharedMemory(create=True, size=n) yields a block of exactly n bytes; SharedMemory(name=s)
    attaches to the same bytes; close/unlink as documented.
  * np.savez / np.load round trip: a member read by name equals the array written under that name.
  * collections.Counter behaves as a finite map; most_common(k) = first k of the sort by count.
"""
import z3

from . import pyexec as X
from .pyexec import Sym, Const, Ref, Arr, BufSlice, Opaque, Builtin, BoundMethod, Unsupported, uid

FLOAT53 = z3.Function("FLOAT53", z3.IntSort(), z3.IntSort())  # value after a round trip through float64
FLOAT32 = z3.Function("FLOAT32", z3.RealSort(), z3.RealSort())  # value after rounding to float32


ASSUMED = [
    "SharedMemory(create=True,size=n) gives exactly n bytes; attaching by name gives the same bytes (assumed, Linux)",
    "CPython semantics of the executed subset: attribute reads return the last stored value, or/and short-circuit, isinstance, min, int, len",
    "NumPy scalar constructors: np.uintN(x) is x for in-range x and raises OverflowError for an out-of-range Python int",
]


def _shm(ex, st, f, args, kwargs):
    create = kwargs.get("create")
    buf = st.new_obj("$buf", {})
    if create is not None and ex.concrete(create):
        size = kwargs["size"]
        t, _ = ex.num(size)
        st.objs[buf.oid]["fields"]["size"] = Sym(z3.simplify(t), "int")
        ref = st.new_obj("$shm", {"buf": buf, "size": Sym(z3.simplify(t), "int"), "name": Sym(z3.Int(uid("shmname")), "str"), "owner": Const(True)})
        st.effects.append(("shm-create", ref.oid, z3.simplify(t)))
    else:
        name = kwargs.get("name", args[0] if args else None)
        asz = getattr(ex, "attach_size", None)
        if asz is not None:  # assumed: the attached mapping has exactly the owner's size (Linux)
            st.objs[buf.oid]["fields"]["size"] = Sym(asz, "int")
        ref = st.new_obj("$shm", {"buf": buf, "name": name, "owner": Const(False)})
        st.effects.append(("shm-attach", ref.oid, name))
    return [("val", ref, st)]


def _shm_getattr(ex, st, ref, attr):
    if attr in ("close", "unlink"):
        return [("val", BoundMethod(Builtin("shm." + attr), ref), st)]
    return None


def _rng_getattr(ex, st, ref, attr):
    if attr in ("integers", "random"):
        return [("val", BoundMethod(Builtin("rng." + attr), ref), st)]
    return None


class Exec(X.PyExec):
    def builtin_method(self, name, selfv, args, kwargs, st):
        if name in ("shm.close", "shm.unlink"):
            st.effects.append((name, selfv.oid))
            return [("val", Const(None), st)]
        if name == "rng.integers":
            t = z3.Int(uid("rngint"))
            return [("val", Sym(t, "int"), st)]
        if name == "rng.random":
            n, _ = self.num(args[0])
            return [("val", Arr("float64", [n], data=uid("rng-random")), st)]
        if name.startswith("counter."):
            return counter_method(self, name, selfv, args, kwargs, st)
        if name == "set.add":
            if not (isinstance(args[0], Sym) and args[0].dtype == "bytes"):
                raise Unsupported("set.add of a non-bytes value")
            f = st.objs[selfv.oid]["fields"]
            f["$elems"] = f["$elems"] + (args[0].t,)
            return [("val", Const(None), st)]
        if name == "sdict.items":
            return [("val", list(st.objs[selfv.oid]["fields"]["$items"]), st)]
        if name == "const.put":  # queue.put on an opaque constant
            return [("val", Const(None), st)]
        return super().builtin_method(name, selfv, args, kwargs, st)

    def builtin(self, name, args, kwargs, st):
        if name == "set" and not args:
            return [("val", st.new_obj("$set", {"$elems": ()}), st)]
        return super().builtin(name, args, kwargs, st)

    def getattr(self, v, attr, st, fn):
        if isinstance(v, Ref) and st.objs[v.oid]["cls"] == "$set" and attr == "add":
            return [("val", BoundMethod(Builtin("set.add"), v), st)]
        return super().getattr(v, attr, st, fn)

    def iter_items(self, v, st):
        if isinstance(v, Arr) and hasattr(v, "elems"):
            out = []
            for e in v.elems:
                out.append(self.np_elem(v.dtype, e, st))
            return out
        return super().iter_items(v, st)

    def np_elem(self, dtype, e, st):
        """element of np.array([...], dtype) read back as a numpy scalar of that dtype"""
        if dtype in ("float64", "float32"):
            t, isr = self.num(e)
            t = t if isr else z3.ToReal(t)
            if dtype == "float32":
                t = FLOAT32(t)  # rounded to single precision: not the value that was given
            return Sym(t, "float")
        if dtype == "infer":
            t, isr = self.num(e)
            if isinstance(e, Sym) and e.dtype.startswith("uint"):
                return Sym(t, "uint64")  # lists of unsigned numpy scalars promote to uint64 (exact)
            if isr or (isinstance(e, Sym) and e.dtype in ("float", "pyfloat")):
                return Sym(t, "float")
            # python ints without dtype: int64 when they fit, otherwise numpy falls back to float64
            return Sym(z3.If(z3.And(t >= -(2**63), t < 2**63), t, FLOAT53(t)), "int64")
        t, isr = self.num(e)
        if dtype in X.DT and not isr:
            # an explicit integer dtype narrows C-style (numpy scalars wrap silently; a python int out
            # of range raises in recent numpy - either way the stored value is not the given one)
            w, sg = X.DT[dtype]
            lo = -(1 << (w - 1)) if sg else 0
            src = X.DT.get(e.dtype) if isinstance(e, Sym) else None
            if not (src is not None and not src[1] and not sg and src[0] <= w):
                t = z3.simplify((t - lo) % (1 << w) + lo)
        return Sym(t, dtype)

    def subscript(self, base, idx, st):
        if isinstance(base, Sym) and base.dtype == "bytes" and isinstance(idx, tuple) and idx and idx[0] == "slice":
            nm = str(base.t)
            if nm.startswith("rowbytes_row_") and (idx[1] is None or self.concrete(idx[1]) == 0) and idx[2] is not None:
                # arr[r, c].tobytes()[:n] is the same byte string as bytes(arr[r, c, :n])
                data, cell = nm[len("rowbytes_row_"):].rsplit("[", 1)
                lead = [int(x) for x in cell.rstrip("]").split(",")]
                return [("val", Sym(X.cellkey(data, lead, self.num(idx[2])[0]), "bytes"), st)]
            raise Unsupported("slice of a bytes value")
        if isinstance(base, Arr) and hasattr(base, "elems") and not isinstance(idx, tuple):
            i = self.concrete(idx)
            if i is not None and 0 <= i < len(base.elems):
                return [("val", self.np_elem(base.dtype, base.elems[i], st), st)]
        return super().subscript(base, idx, st)

    def compare(self, op, a, b, st):
        import ast
        import numpy as np

        def dtn(v):
            if isinstance(v, Const):
                if isinstance(v.v, str) and v.v.startswith("dtype:"):
                    return v.v[6:]
                if isinstance(v.v, type) and issubclass(v.v, np.generic):
                    return v.v.__name__
            return None

        if isinstance(op, (ast.In, ast.NotIn)) and isinstance(b, Ref) and st.objs[b.oid]["cls"] == "$counter":
            if st.objs[b.oid]["fields"].get("$unknown"):
                return Sym(z3.Bool(X.uid("in_counter")), "bool")  # arbitrary contents: both outcomes
            if not (isinstance(a, Sym) and a.dtype == "bytes"):
                raise Unsupported("membership of a non-bytes value")
            ent = st.objs[b.oid]["fields"]["$entries"]
            t = z3.Or(*[a.t == k for k, v in ent]) if ent else z3.BoolVal(False)
            return Sym(z3.simplify(t if isinstance(op, ast.In) else z3.Not(t)), "bool")
        if isinstance(op, (ast.In, ast.NotIn)) and isinstance(b, Ref) and st.objs[b.oid]["cls"] == "$set":
            if not (isinstance(a, Sym) and a.dtype == "bytes"):
                raise Unsupported("membership of a non-bytes value")
            el = st.objs[b.oid]["fields"]["$elems"]
            t = z3.Or(*[a.t == e for e in el]) if el else z3.BoolVal(False)
            return Sym(z3.simplify(t if isinstance(op, ast.In) else z3.Not(t)), "bool")
        da, db = dtn(a), dtn(b)
        if da is not None and db is not None and isinstance(op, (ast.Eq, ast.NotEq)):
            return Const((da == db) == isinstance(op, ast.Eq))
        return super().compare(op, a, b, st)


def counter_method(ex, name, selfv, args, kwargs, st):
    if name == "counter.items":
        pairs = st.objs[selfv.oid]["fields"].get("$pairs")
        if pairs is None:
            raise Unsupported("items() of a Counter built by stores")
        return [("val", list(pairs), st)]
    if name == "counter.clear":
        st.objs[selfv.oid]["fields"]["$entries"] = ()
        st.objs[selfv.oid]["fields"].pop("$pairs", None)
        st.effects.append(("counter-clear", selfv.oid))
        return [("val", Const(None), st)]
    if name == "counter.most_common":
        st.effects.append(("most_common", selfv.oid, args[0] if args else None))
        r = Opaque("most_common")
        r.counter = selfv.oid
        r.k = args[0] if args else None
        return [("val", r, st)]
    raise Unsupported(name)


def _counter(ex, st, f, args, kwargs):
    if kwargs or len(args) > 1:
        raise Unsupported("Counter(...) with keyword arguments")
    if not args:
        ref = st.new_obj("$counter", {"$entries": ()})
        return [("val", ref, st)]
    # Counter(iterable of byte keys): occurrences are collapsed per distinct key (first-seen order);
    # whether two symbolic keys are equal is explored both ways
    items = ex.iter_items(args[0], st)
    states = [(st, [])]
    for it in items:
        if not (isinstance(it, Sym) and it.dtype == "bytes"):
            raise Unsupported("Counter over non-bytes items")
        nxt = []
        for s0, ent in states:
            pending = [(s0, 0)]
            while pending:
                s1, i = pending.pop()
                if i == len(ent):
                    nxt.append((s1, ent + [(it, 1)]))
                    continue
                k, c = ent[i]
                if z3.eq(k.t, it.t):
                    nxt.append((s1, ent[:i] + [(k, c + 1)] + ent[i + 1 :]))
                    continue
                for cond, s2 in ex.branch(Sym(k.t == it.t, "bool"), s1):
                    if cond:
                        nxt.append((s2, ent[:i] + [(k, c + 1)] + ent[i + 1 :]))
                    else:
                        pending.append((s2, i + 1))
        states = nxt
    out = []
    for s1, ent in states:
        ref = s1.new_obj("$counter", {"$entries": tuple((k.t, z3.IntVal(c)) for k, c in ent), "$pairs": [(k, Const(c)) for k, c in ent]})
        out.append(("val", ref, s1))
    return out


def counter_lookup(entries, key_t):
    """value of a Counter (finite map, later stores shadow earlier ones) at key identity key_t"""
    t = z3.IntVal(0)
    for k, v in entries:
        t = z3.If(key_t == k, v, t)
    return t


def _counter_getitem(ex, st, ref, idx):
    if not (isinstance(idx, Sym) and idx.dtype == "bytes"):
        raise Unsupported("Counter lookup with a non-bytes key")
    if st.objs[ref.oid]["fields"].get("$unknown"):
        # a Counter left behind by earlier operations: its value at the key is arbitrary (>= 0)
        t = z3.Int(X.uid("counter_value"))
        st.pc.append(t >= 0)
        return [("val", Sym(t, "int"), st)]
    ent = st.objs[ref.oid]["fields"]["$entries"]
    return [("val", Sym(z3.simplify(counter_lookup(ent, idx.t)), "int"), st)]


def _counter_setitem(ex, st, ref, idx, value):
    if not (isinstance(idx, Sym) and idx.dtype == "bytes"):
        raise Unsupported("Counter store with a non-bytes key")
    f = st.objs[ref.oid]["fields"]
    f["$entries"] = f["$entries"] + ((idx.t, ex.num(value)[0]),)
    st.effects.append(("counter-store", ref.oid, idx, value))
    return [("fall", None, st)]


def _counter_getattr(ex, st, ref, attr):
    return [("val", BoundMethod(Builtin("counter." + attr), ref), st)]


def _sdict_getattr(ex, st, ref, attr):
    if attr == "items":
        return [("val", BoundMethod(Builtin("sdict.items"), ref), st)]
    return None


def _sdict_iter(ex, st, ref):
    return [k for k, v in st.objs[ref.oid]["fields"]["$items"]]


def _npz_getitem(ex, st, ref, idx):
    name = idx.v if isinstance(idx, Const) else None
    members = getattr(ex, "npz_members", None)
    st.effects.append(("npz-read", ref.oid, name))
    if members is None or name not in members:
        return [("raise", Const(KeyError), st)]
    return [("val", members[name], st)]


def _stub_gcs(ex, st, f, args, kwargs):
    st.effects.append(("call", "HeavyHitters.generate_candidate_set", tuple(args)))
    return [("val", Const(None), st)]


HOOKS = {
    ("getitem", "$npz"): _npz_getitem,
    ("getattr", "$dict"): _sdict_getattr,
    ("iter", "$dict"): _sdict_iter,
    ("external", "SharedMemory"): _shm,
    ("getattr", "$shm"): _shm_getattr,
    ("getattr", "$rng"): _rng_getattr,
    ("external", "Counter"): _counter,
    ("getitem", "$counter"): _counter_getitem,
    ("setitem", "$counter"): _counter_setitem,
    ("getattr", "$counter"): _counter_getattr,
}


def make_exec(chk, extra_hooks=None):
    mods = [chk.module(m) for m in ("countmin", "hyperloglog", "heavyhitters", "helpers")]
    hooks = dict(HOOKS)
    hooks.update(extra_hooks or {})
    return Exec(mods, hooks)


# ------------------------------------------------------------------------------------------
# symbolic sketch objects = outcomes of the real constructors on symbolic arguments
# ------------------------------------------------------------------------------------------
CLASSES = {
    "CountMinLinear": ("countmin", ["width", "depth"]),
    "CountMinLog16": ("countmin", ["width", "depth", "max_count", "num_reserved"]),
    "CountMinLog8": ("countmin", ["width", "depth", "max_count", "num_reserved"]),
    "HyperLogLog": ("hyperloglog", ["p", "seed"]),
    "HeavyHitters": ("heavyhitters", ["width", "depth", "max_key_len", "phi"]),
}


FB = z3.Function("FIND_BASE", z3.IntSort(), z3.IntSort(), z3.IntSort(), z3.RealSort())
FB_OK = z3.Function("FIND_BASE_ACCEPTS", z3.IntSort(), z3.IntSort(), z3.IntSort(), z3.BoolSort())


def find_base_hook(ex, st, f, args, kwargs):
    """_find_base is a jitted *function* of its arguments that is outside the verifier's reach:
    assumed contract 'returns FIND_BASE(args) > 1 when FIND_BASE_ACCEPTS(args), else raises
    ValueError' (its quality is checked by the bounded stand-in of C18)."""
    if getattr(f, "qualname", "") != "countmin._find_base":
        return None
    mc, nr, um = [ex.num(a)[0] for a in args]
    names = ["max_count", "num_reserved", "uint_max"]
    st.effects.append(("kernel", "countmin._find_base", dict(zip(names, args))))
    out = []
    for cond, s2 in ex.branch(Sym(FB_OK(mc, nr, um), "bool"), st):
        if cond:
            b = FB(mc, nr, um)
            s2.pc.append(b > 1)
            # assumed contract of _find_base (bounded grid stand-in in C18): the ceiling decodes to max_count
            from .contracts.countmin import DEC

            s2.pc.append(DEC(um, nr, b) == z3.ToReal(mc))
            v = Sym(b, "float")
            v.origin = ("find_base", mc, nr, um)
            out.append(("val", v, s2))
        else:
            out.append(("raise", Const(ValueError), s2))
    return out


def construct(ex, clsname, tag, shared=False, st=None, phi_none=True):
    """run the real __init__ on fresh symbolic python-int arguments -> (args dict, list of outcomes)"""
    modname, params = CLASSES[clsname]
    cls = ex.cls(modname, clsname)
    st = st or X.State()
    args = {}
    for p in params:
        if p == "phi":
            args[p] = Const(None) if phi_none else Sym(z3.Real("%s_%s" % (p, tag)), "pyfloat")
        else:
            args[p] = Sym(z3.Int("%s_%s" % (p, tag)), "int")
    kwargs = dict(args)
    kwargs["shared_memory"] = Const(bool(shared))
    outs = ex.instantiate(cls, [], kwargs, st)
    return args, outs


def field(st, ref, name):
    return st.objs[ref.oid]["fields"].get(name)


HOOKS[("call", "countmin._find_base")] = find_base_hook
