"""Contracts for sketchnu/hyperloglog.py kernels (bit-vector mode): C02 (register semantics)."""
import z3
from ..contract import Contract, register
from .hashes_bv import FH64B, bv, BV64

BV8 = z3.BitVecSort(8)


def bv8(v):
    return z3.BitVecVal(v, 8)


def nlz_def(x):
    """number of leading zero bits of a 64-bit word (64 for zero): the explicit definition"""
    r = bv8(64)
    for i in range(64):  # lowest set bit considered first so that the highest one wins
        r = z3.If(z3.Extract(i, i, x) == z3.BitVecVal(1, 1), bv8(63 - i), r)
    return r


# NLZ is the *name* of that function; kernels that only use it see the name plus the
# characterisation below (proved once from the definition, lemma "nlz-char" of C02).
NLZ = z3.Function("NLZ64", BV64, BV8)


def nlz_char(x, n):
    """n is the leading-zero count of x"""
    return z3.And(
        z3.ULE(n, bv8(64)),
        z3.Implies(x == bv(0), n == bv8(64)),
        z3.Implies(x != bv(0), z3.And(z3.ULE(n, bv8(63)), z3.LShR(x, bv(63) - z3.ZeroExt(56, n)) == bv(1))),
    )


def umax8(a, b):
    return z3.If(z3.UGT(b, a), b, a)


def reg_index(h, m):
    return h & (m - bv(1))


def rank(h, p):
    """one plus the number of leading zeros of the remaining 64-p bits (as a register value)"""
    return NLZ(z3.LShR(h, p)) - z3.Extract(7, 0, p) + bv8(1)


def hll_requires(F, regs=("registers",)):
    yield "7<=p<=16", z3.And(z3.UGE(F.p, bv(7)), z3.ULE(F.p, bv(16)))
    yield "m==2^p", F.m == bv(1) << F.p
    for r in regs:
        yield r + ".len", getattr(F, r).shape[0] == F.m


@register
class NLeadingZeros64(Contract):
    name = "hyperloglog._n_leading_zeros64"
    mode = "bv"

    def ghost_defs(self, F):
        return [NLZ(F.x) == nlz_def(F.x)]  # definition of the name NLZ64, instantiated at the argument

    def call_defs(self, F):
        return [nlz_char(F.x, NLZ(F.x))]  # instance of lemma nlz-char

    def ensures(self, F):
        yield "spec", F.res == NLZ(F.x)


def added(F, pre_reg, h):
    """register file after adding a key whose hash is h: i -> value"""
    idx, rk = reg_index(h, F.m), rank(h, F.p)
    return lambda i: z3.If(i == idx, umax8(pre_reg(i), rk), pre_reg(i))


@register
class HllAdd(Contract):
    name = "hyperloglog._add"
    mode = "bv"
    modifies = ("registers",)

    def requires(self, F):
        yield from hll_requires(F)

    def ghost_defs(self, F):
        h = FH64B(F.key.kid, F.seed)
        return [nlz_char(z3.LShR(h, F.p), NLZ(z3.LShR(h, F.p)))]  # instance of lemma nlz-char

    def call_defs(self, F):
        return self.ghost_defs(F)

    def ensures(self, F):
        h = FH64B(F.key.kid, F.seed)
        new = added(F, F.pre.registers, h)
        yield "registers", F.forall([(0, F.m)], lambda i: F.post.registers(i) == new(i))
        yield "rank-range", z3.And(z3.UGE(rank(h, F.p), bv8(1)), z3.ULE(rank(h, F.p), bv8(58)))


NG = z3.Function("HLL_NGRAM_FOLD", BV64, BV64, BV64, BV64, BV8)  # (key id, ngram, #windows done, register) -> value


@register
class HllAddNgram(Contract):
    name = "hyperloglog._add_ngram"
    mode = "bv"
    modifies = ("registers",)
    ghost_note = "HLL_NGRAM_FOLD(key, n, j, i) = register i after adding the first j windows key[w:w+n] (recursion on j)"

    def requires(self, F):
        yield from hll_requires(F)
        yield "ngram>=1", z3.UGE(F.ngram, bv(1))

    def nwin(self, F):
        return z3.If(z3.ULE(F.key.len, F.ngram), bv(1), F.key.len - F.ngram + bv(1))

    def window_hash(self, F, j):
        whole = z3.ULE(F.key.len, F.ngram)
        kid = z3.If(whole, F.key.kid, F.key.slice_kid(F.sem, j, F.ngram))
        return FH64B(kid, F.seed)

    def ghost_defs(self, F):
        return [
            F.forall([(0, F.m)], lambda i: NG(F.key.kid, F.ngram, bv(0), i) == F.pre.registers(i)),
            self.step(F, bv(0)),  # recurrence instance for the first window (the only one when len <= n)
        ]

    def step(self, F, j):
        """definitional recurrence instance at window j"""
        new = added(F, lambda i: NG(F.key.kid, F.ngram, j, i), self.window_hash(F, j))
        return F.forall([(0, F.m)], lambda i: NG(F.key.kid, F.ngram, j + bv(1), i) == new(i))

    def ensures(self, F):
        yield "registers", F.forall([(0, F.m)], lambda i: F.post.registers(i) == NG(F.key.kid, F.ngram, self.nwin(F), i))

    def _inv(self, F, L):
        k = L.k
        yield "n==nwin", z3.Implies(z3.UGT(F.key.len, F.ngram), L.n == self.nwin(F))
        yield "fold", F.forall([(0, F.m)], lambda i: L.cur.registers(i) == NG(F.key.kid, F.ngram, k, i))
        yield "def:step", self.step(F, k), True

    @property
    def loops(self):
        return {0: self._inv}


@register
class HllMerge(Contract):
    name = "hyperloglog._merge"
    mode = "bv"
    modifies = ("registers",)

    def requires(self, F):
        yield "registers.len", z3.UGE(F.registers.shape[0], F.m)
        yield "other.len", z3.UGE(F.other_registers.shape[0], F.m)
        yield "m<2^62", z3.ULT(F.m, bv(1 << 62))

    def ensures(self, F):
        yield "max", F.forall([(0, F.m)], lambda i: F.post.registers(i) == umax8(F.pre.registers(i), F.other_registers(i)))
        yield "rest", F.forall([(0, F.registers.shape[0])], lambda i: z3.Implies(z3.UGE(i, F.m), F.post.registers(i) == F.pre.registers(i)))

    def _inv(self, F, L):
        k = L.k
        yield "done", F.forall([(0, k)], lambda i: L.cur.registers(i) == umax8(F.pre.registers(i), F.other_registers(i)))
        yield "rest", F.forall([(0, F.registers.shape[0])], lambda i: z3.Implies(z3.UGE(i, k), L.cur.registers(i) == F.pre.registers(i)))

    @property
    def loops(self):
        return {0: self._inv}


# ======================================================================================
# the estimator (C17, C07): int mode, float64 as real, LN / POW / INTERP uninterpreted
# ======================================================================================
from ..sem import LN, POW  # noqa: E402
from ..engine import INTERP_FN, CNZ_fn  # noqa: E402
from .. import sem as _S  # noqa: E402

ESUM = z3.Function("HLL_ESUM", z3.IntSort(), z3.IntSort(), z3.RealSort())  # (registers value, k) -> sum_{i<k} 2^-reg[i]
_INT = _S.Sem("int")


def CNZ(tag):
    return CNZ_fn(_INT)(tag)


@register
class LinearCounting(Contract):
    name = "hyperloglog._linear_counting"
    mode = "int"

    def requires(self, F):
        yield "n_zero>0", F.n_zero > 0

    def ensures(self, F):
        yield "spec", F.res == z3.ToReal(F.m) * LN(z3.ToReal(F.m) / z3.ToReal(F.n_zero))


@register
class EstimationFunction(Contract):
    name = "hyperloglog._estimation_function"
    mode = "int"
    ghost_note = "HLL_ESUM(registers, k) = sum over i < k of 2^-registers[i] (recursion on k)"

    def requires(self, F):
        yield "m<2^31", z3.And(F.m >= 0, F.m < (1 << 31))

    def ghost_defs(self, F):
        return [ESUM(F.registers.tag, 0) == 0]

    def call_defs(self, F):
        return ()

    def ensures(self, F):
        yield "spec", F.res == F.alpha * z3.ToReal(F.m * F.m) / ESUM(F.registers.tag, F.registers.shape[0])

    def _inv(self, F, L):
        k = L.k
        yield "total==ESUM(k)", L.var("total") == ESUM(F.registers.tag, k)
        yield "def:ESUM-step", z3.Implies(
            z3.And(k >= 0, k < F.registers.shape[0]),
            ESUM(F.registers.tag, k + 1) == ESUM(F.registers.tag, k) + POW(z3.RealVal(2), -z3.ToReal(F.pre.registers(k))),
        ), True

    @property
    def loops(self):
        return {0: self._inv}


def hll_estimate(m, V, thr, alpha, esum, raw_tag, bias_tag):
    """the documented HyperLogLog++ estimator (property C17's own wording), as a term"""
    mr = z3.ToReal(m)
    LC = mr * LN(mr / z3.ToReal(V))
    E = alpha * z3.ToReal(m * m) / esum
    B = lambda x: INTERP_FN(x, raw_tag, bias_tag)
    return z3.If(V > 0, z3.If(LC > z3.ToReal(thr), E - B(E), LC), z3.If(E <= z3.ToReal(5 * m), E - B(E), E))


@register
class HllQuery(Contract):
    name = "hyperloglog._query"
    mode = "int"

    def requires(self, F):
        yield "registers.len==m", F.registers.shape[0] == F.m
        yield "0<m<2^31", z3.And(F.m > 0, F.m < (1 << 31))

    def ghost_defs(self, F):
        return [z3.And(CNZ(F.registers.tag) >= 0, CNZ(F.registers.tag) <= F.registers.shape[0])]

    def ensures(self, F):
        V = F.m - CNZ(F.registers.tag)
        yield "spec", F.res == hll_estimate(F.m, V, F.threshold, F.alpha, ESUM(F.registers.tag, F.registers.shape[0]), F.raw_estimate.tag, F.bias_data.tag)
