"""Contracts for sketchnu/hashes.py (bit-vector mode) + the int-mode summary of fasthash64."""
import z3
from ..contract import Contract, register

_I = z3.IntSort()
# FH64(key identity, seed): the value of fasthash64 as an opaque function of (content, seed).
# Justified by the bv-mode postcondition of fasthash64 (C11): the result equals a spec function of
# (bytes, length, seed) only.
FH64 = z3.Function("FH64", _I, _I, _I)
TWO64 = 1 << 64


@register
class FastHash64Summary(Contract):
    """int-mode *summary* used by table kernels (the bv-mode contract lives in hashes_bv.py)"""

    name = "hashes.fasthash64"
    mode = "int"
    summary_for = "int"

    def requires(self, F):
        return ()

    def ensures(self, F):
        yield "is-FH64", F.res == FH64(F.key.kid, F.seed)
        yield "range", z3.And(F.res >= 0, F.res < TWO64)
