"""Contracts for the count-min kernels of sketchnu/countmin.py (int mode)."""
import z3
from ..contract import Contract, register
from .hashes import FH64

MAX32 = (1 << 32) - 1
TWO64 = 1 << 64


def COL(F, kid, r):
    """column of key `kid` in row r: the hash schedule the documentation promises (seed = row)"""
    return FH64(kid, r) % F.width


def wrap64(t):
    return z3.If(t >= TWO64, t - TWO64, t)


def zmin(a, b):
    return z3.If(a <= b, a, b)


def table_requires(F, cms="cms", buckets=True, counters=True, ceiling=None):
    yield "width>0", F.width > 0
    if ceiling is not None:
        yield "ceiling", F.uint_maxval == ceiling
    a = getattr(F, cms)
    yield cms + ".shape", z3.And(a.shape[0] == F.depth, a.shape[1] == F.width)
    if buckets:
        yield "buckets.len", F.buckets.shape[0] >= F.depth
    if counters:
        yield "n_added_records.len", F.n_added_records.shape[0] >= 2


def is_min(F, m, cms, kid, umax):
    """m is the minimum of umax and the key's counters over all rows"""
    return [
        m <= umax,
        m >= 0,
        F.forall([(0, F.depth)], lambda r: m <= cms(r, COL(F, kid, r))),
        z3.Or(m == umax, F.exists([(0, F.depth)], lambda r: m == cms(r, COL(F, kid, r)))),
    ]


class _Query(Contract):
    mode = "int"
    modifies = ("buckets",)

    def requires(self, F):
        yield from table_requires(F, counters=False)

    def ensures(self, F):
        kid = F.key.kid
        yield "buckets", F.forall([(0, F.depth)], lambda r: F.post.buckets(r) == COL(F, kid, r))
        yield "buckets-frame", F.forall(
            [(0, F.buckets.shape[0])], lambda r: z3.Implies(r >= F.depth, F.post.buckets(r) == F.pre.buckets(r))
        )
        for i, f in enumerate(is_min(F, F.res, F.pre.cms, kid, F.uint_maxval)):
            yield ("le-ceiling", "nonneg", "lower", "attained")[i], f

    def _inv(self, F, L):
        kid = F.key.kid
        k = L.k
        mc = L.var("min_count")
        yield "buckets-done", F.forall([(0, k)], lambda r: L.cur.buckets(r) == COL(F, kid, r))
        yield "buckets-rest", F.forall(
            [(0, F.buckets.shape[0])], lambda r: z3.Implies(r >= k, L.cur.buckets(r) == L.entry.buckets(r))
        )
        yield "le-ceiling", mc <= F.uint_maxval
        yield "lower", F.forall([(0, k)], lambda r: mc <= F.pre.cms(r, COL(F, kid, r)))
        yield "attained", z3.Or(mc == F.uint_maxval, F.exists([(0, k)], lambda r: mc == F.pre.cms(r, COL(F, kid, r))))

    @property
    def loops(self):
        return {0: self._inv}

    small_shapes = ({"depth": 1, "width": 1}, {"depth": 2, "width": 2}, {"depth": 2, "width": 3})


@register
class QueryLinear(_Query):
    name = "countmin._query_linear"


@register
class AddLinear(Contract):
    name = "countmin._add_linear"
    mode = "int"
    modifies = ("cms", "n_added_records", "buckets")
    ghost_note = "m = min(uint_maxval, the key's counters): the minimum of a finite set exists and is unique"
    small_shapes = ({"depth": 1, "width": 1}, {"depth": 2, "width": 2}, {"depth": 2, "width": 3})

    def requires(self, F):
        yield from table_requires(F, ceiling=MAX32)

    def ghosts(self, F):
        return [("m", z3.IntSort())]

    def ghost_defs(self, F):
        return is_min(F, F.g.m, F.pre.cms, F.key.kid, F.uint_maxval)

    def ensures(self, F):
        kid, m, umax, v = F.key.kid, F.g.m, F.uint_maxval, F.value
        pre, post = F.pre, F.post
        cells = [(0, F.depth), (0, F.width)]
        vcap = zmin(v, umax - m)
        new = m + vcap
        # ---- exact clauses (C05, C12, callee summaries)
        yield "x-saturated-noop", z3.Implies(
            m == umax,
            z3.And(
                F.forall(cells, lambda r, c: post.cms(r, c) == pre.cms(r, c)),
                post.n_added_records(0) == pre.n_added_records(0),
            ),
        )
        yield "x-cells", z3.Implies(
            m < umax,
            F.forall(
                cells,
                lambda r, c: post.cms(r, c)
                == z3.If(z3.And(c == COL(F, kid, r), pre.cms(r, c) < new), new, pre.cms(r, c)),
            ),
        )
        yield "x-n_added", z3.Implies(m < umax, post.n_added_records(0) == wrap64(pre.n_added_records(0) + vcap))
        yield "x-n_records", post.n_added_records(1) == pre.n_added_records(1)
        yield "x-buckets", F.forall([(0, F.depth)], lambda r: post.buckets(r) == COL(F, kid, r))
        # ---- property-derived clauses (C01, C18): true for any correct count-min update rule
        yield "w-lower", F.forall([(0, F.depth)], lambda r: post.cms(r, COL(F, kid, r)) >= zmin(m + v, umax))
        yield "w-mono", F.forall(cells, lambda r, c: post.cms(r, c) >= pre.cms(r, c))
        yield "w-frame", F.forall(cells, lambda r, c: z3.Implies(c != COL(F, kid, r), post.cms(r, c) == pre.cms(r, c)))
        yield "w-upper", F.forall(
            [(0, F.depth)],
            lambda r: post.cms(r, COL(F, kid, r)) <= z3.If(pre.cms(r, COL(F, kid, r)) + v <= umax, pre.cms(r, COL(F, kid, r)) + v, umax),
        )
        yield "w-ceiling", z3.Implies(
            F.forall(cells, lambda r, c: pre.cms(r, c) <= umax), F.forall(cells, lambda r, c: post.cms(r, c) <= umax)
        )

    def _inv(self, F, L):
        # second loop of the function: rows < k updated, rows >= k untouched
        kid = F.key.kid
        k = L.k
        new = L.var("new_count")
        cells_done = [(0, k), (0, F.width)]
        yield "done", F.forall(
            cells_done,
            lambda r, c: L.cur.cms(r, c) == z3.If(z3.And(c == COL(F, kid, r), F.pre.cms(r, c) < new), new, F.pre.cms(r, c)),
        )
        yield "rest", F.forall(
            [(0, F.depth), (0, F.width)], lambda r, c: z3.Implies(r >= k, L.cur.cms(r, c) == F.pre.cms(r, c))
        )

    @property
    def loops(self):
        return {0: self._inv}
