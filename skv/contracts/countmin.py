"""Contracts for the count-min kernels of sketchnu/countmin.py (int mode)."""
import z3
from ..contract import Contract, register
from .hashes import FH64

MAX32 = (1 << 32) - 1
TWO64 = 1 << 64


def COL(F, kid, r):
    """column of key `kid` in row r: the hash schedule the documentation promises (seed = row)"""
    return FH64(kid, r) % F.width


def wrap64(t):
    return z3.If(t >= TWO64, t - TWO64, t)


def zmin(a, b):
    return z3.If(a <= b, a, b)


def table_requires(F, cms="cms", buckets=True, counters=True, ceiling=None):
    yield "width>0", F.width > 0
    if ceiling is not None:
        yield "ceiling", F.uint_maxval == ceiling
    a = getattr(F, cms)
    yield cms + ".shape", z3.And(a.shape[0] == F.depth, a.shape[1] == F.width)
    if buckets:
        yield "buckets.len", F.buckets.shape[0] >= F.depth
    if counters:
        yield "n_added_records.len", F.n_added_records.shape[0] >= 2


def is_min(F, m, cms, kid, umax):
    """m is the minimum of umax and the key's counters over all rows"""
    return [
        m <= umax,
        m >= 0,
        F.forall([(0, F.depth)], lambda r: m <= cms(r, COL(F, kid, r))),
        z3.Or(m == umax, F.exists([(0, F.depth)], lambda r: m == cms(r, COL(F, kid, r)))),
    ]


class _Query(Contract):
    mode = "int"
    modifies = ("buckets",)

    def requires(self, F):
        yield from table_requires(F, counters=False)

    def ensures(self, F):
        kid = F.key.kid
        yield "buckets", F.forall([(0, F.depth)], lambda r: F.post.buckets(r) == COL(F, kid, r))
        yield "buckets-frame", F.forall(
            [(0, F.buckets.shape[0])], lambda r: z3.Implies(r >= F.depth, F.post.buckets(r) == F.pre.buckets(r))
        )
        for i, f in enumerate(is_min(F, F.res, F.pre.cms, kid, F.uint_maxval)):
            yield ("le-ceiling", "nonneg", "lower", "attained")[i], f

    def _inv(self, F, L):
        kid = F.key.kid
        k = L.k
        mc = L.var("min_count")
        yield "buckets-done", F.forall([(0, k)], lambda r: L.cur.buckets(r) == COL(F, kid, r))
        yield "buckets-rest", F.forall(
            [(0, F.buckets.shape[0])], lambda r: z3.Implies(r >= k, L.cur.buckets(r) == L.entry.buckets(r))
        )
        yield "le-ceiling", mc <= F.uint_maxval
        yield "lower", F.forall([(0, k)], lambda r: mc <= F.pre.cms(r, COL(F, kid, r)))
        yield "attained", z3.Or(mc == F.uint_maxval, F.exists([(0, k)], lambda r: mc == F.pre.cms(r, COL(F, kid, r))))

    @property
    def loops(self):
        return {0: self._inv}

    small_shapes = ({"depth": 1, "width": 1}, {"depth": 2, "width": 2}, {"depth": 2, "width": 3})


@register
class QueryLinear(_Query):
    name = "countmin._query_linear"


@register
class AddLinear(Contract):
    name = "countmin._add_linear"
    mode = "int"
    modifies = ("cms", "n_added_records", "buckets")
    ghost_note = "m = min(uint_maxval, the key's counters): the minimum of a finite set exists and is unique"
    small_shapes = ({"depth": 1, "width": 1}, {"depth": 2, "width": 2}, {"depth": 2, "width": 3})

    def requires(self, F):
        yield from table_requires(F, ceiling=MAX32)

    def ghosts(self, F):
        return [("m", z3.IntSort())]

    def ghost_defs(self, F):
        return is_min(F, F.g.m, F.pre.cms, F.key.kid, F.uint_maxval)

    def ensures(self, F):
        kid, m, umax, v = F.key.kid, F.g.m, F.uint_maxval, F.value
        pre, post = F.pre, F.post
        cells = [(0, F.depth), (0, F.width)]
        vcap = zmin(v, umax - m)
        new = m + vcap
        # ---- exact clauses (C05, C12, callee summaries)
        yield "x-saturated-noop", z3.Implies(
            m == umax,
            z3.And(
                F.forall(cells, lambda r, c: post.cms(r, c) == pre.cms(r, c)),
                post.n_added_records(0) == pre.n_added_records(0),
            ),
        )
        yield "x-cells", z3.Implies(
            m < umax,
            F.forall(
                cells,
                lambda r, c: post.cms(r, c)
                == z3.If(z3.And(c == COL(F, kid, r), pre.cms(r, c) < new), new, pre.cms(r, c)),
            ),
        )
        yield "x-n_added", z3.Implies(m < umax, post.n_added_records(0) == wrap64(pre.n_added_records(0) + vcap))
        yield "x-n_records", post.n_added_records(1) == pre.n_added_records(1)
        yield "x-buckets", F.forall([(0, F.depth)], lambda r: post.buckets(r) == COL(F, kid, r))
        # ---- property-derived clauses (C01, C18): true for any correct count-min update rule
        yield "w-lower", F.forall([(0, F.depth)], lambda r: post.cms(r, COL(F, kid, r)) >= zmin(m + v, umax))
        yield "w-mono", F.forall(cells, lambda r, c: post.cms(r, c) >= pre.cms(r, c))
        yield "w-frame", F.forall(cells, lambda r, c: z3.Implies(c != COL(F, kid, r), post.cms(r, c) == pre.cms(r, c)))
        yield "w-upper", F.forall(
            [(0, F.depth)],
            lambda r: post.cms(r, COL(F, kid, r)) <= z3.If(pre.cms(r, COL(F, kid, r)) + v <= umax, pre.cms(r, COL(F, kid, r)) + v, umax),
        )
        yield "w-ceiling", z3.Implies(
            F.forall(cells, lambda r, c: pre.cms(r, c) <= umax), F.forall(cells, lambda r, c: post.cms(r, c) <= umax)
        )

    def _inv(self, F, L):
        # second loop of the function: rows < k updated, rows >= k untouched
        kid = F.key.kid
        k = L.k
        new = L.var("new_count")
        pre, cur = F.pre, L.cur
        cells = [(0, F.depth), (0, F.width)]
        yield "x-done", F.forall(
            [(0, k), (0, F.width)],
            lambda r, c: cur.cms(r, c) == z3.If(z3.And(c == COL(F, kid, r), pre.cms(r, c) < new), new, pre.cms(r, c)),
        )
        yield "rest", F.forall(cells, lambda r, c: z3.Implies(r >= k, cur.cms(r, c) == pre.cms(r, c)))  # rows not yet visited are untouched (any row-by-row update rule)
        # weak invariants: enough for the property-derived clauses, true for any sound update rule
        yield "w-lower", F.forall([(0, k)], lambda r: cur.cms(r, COL(F, kid, r)) >= new)
        yield "w-mono", F.forall(cells, lambda r, c: cur.cms(r, c) >= pre.cms(r, c))
        yield "w-frame", F.forall(cells, lambda r, c: z3.Implies(c != COL(F, kid, r), cur.cms(r, c) == pre.cms(r, c)))
        # (the same bound as the post clause, so that any sound update rule - conservative or plain - keeps it)
        yield "w-upper", F.forall(
            [(0, F.depth)],
            lambda r: cur.cms(r, COL(F, kid, r)) <= z3.If(pre.cms(r, COL(F, kid, r)) + F.value <= F.uint_maxval, pre.cms(r, COL(F, kid, r)) + F.value, F.uint_maxval),
        )
        yield "counters", z3.And(
            cur.n_added_records(0) == L.entry.n_added_records(0), cur.n_added_records(1) == L.entry.n_added_records(1)
        )

    @property
    def loops(self):
        return {0: self._inv}


@register
class MergeLinear(Contract):
    name = "countmin._merge_linear"
    mode = "int"
    modifies = ("cms", "n_added_records")
    small_shapes = ({"depth": 1, "width": 1}, {"depth": 2, "width": 2})

    def requires(self, F):
        yield "ceiling", F.uint_maxval == MAX32
        yield "cms.shape", z3.And(F.cms.shape[0] == F.depth, F.cms.shape[1] == F.width)
        yield "other.shape", z3.And(F.other_cms.shape[0] == F.depth, F.other_cms.shape[1] == F.width)
        yield "counters.len", z3.And(F.n_added_records.shape[0] >= 2, F.other_n_added_records.shape[0] >= 2)

    @staticmethod
    def cell(a, b, umax):
        return z3.If(a + b > umax, umax, a + b)

    def ensures(self, F):
        cells = [(0, F.depth), (0, F.width)]
        yield "x-cells", F.forall(cells, lambda r, c: F.post.cms(r, c) == self.cell(F.pre.cms(r, c), F.other_cms(r, c), F.uint_maxval))
        yield "x-n_added", F.post.n_added_records(0) == wrap64(F.pre.n_added_records(0) + F.other_n_added_records(0))
        yield "x-n_records", F.post.n_added_records(1) == wrap64(F.pre.n_added_records(1) + F.other_n_added_records(1))

    def _outer(self, F, L):
        k = L.k
        yield "rows-done", F.forall([(0, k), (0, F.width)], lambda r, c: L.cur.cms(r, c) == self.cell(F.pre.cms(r, c), F.other_cms(r, c), F.uint_maxval))
        yield "rows-rest", F.forall([(0, F.depth), (0, F.width)], lambda r, c: z3.Implies(r >= k, L.cur.cms(r, c) == F.pre.cms(r, c)))
        yield "counters", z3.And(L.cur.n_added_records(0) == F.pre.n_added_records(0), L.cur.n_added_records(1) == F.pre.n_added_records(1))

    def _inner(self, F, L):
        j = L.k
        row = L.var("row")
        yield "row-range", z3.And(row >= 0, row < F.depth)
        yield "rows-done", F.forall([(0, row), (0, F.width)], lambda r, c: L.cur.cms(r, c) == self.cell(F.pre.cms(r, c), F.other_cms(r, c), F.uint_maxval))
        yield "row-done", F.forall([(0, j)], lambda c: L.cur.cms(row, c) == self.cell(F.pre.cms(row, c), F.other_cms(row, c), F.uint_maxval))
        yield "row-rest", F.forall([(0, F.width)], lambda c: z3.Implies(c >= j, L.cur.cms(row, c) == F.pre.cms(row, c)))
        yield "rows-rest", F.forall([(0, F.depth), (0, F.width)], lambda r, c: z3.Implies(r > row, L.cur.cms(r, c) == F.pre.cms(r, c)))
        yield "counters", z3.And(L.cur.n_added_records(0) == F.pre.n_added_records(0), L.cur.n_added_records(1) == F.pre.n_added_records(1))

    @property
    def loops(self):
        return {0: self._outer, 1: self._inner}


# ======================================================================================
# log counters (float64 treated as mathematical reals; POW / LN are uninterpreted with
# instantiated axioms)
# ======================================================================================
from ..sem import POW, LN  # noqa: E402

R = z3.RealVal


def DEC(c, nr, base):
    """decoded value of counter c (the documentation's formula)"""
    return z3.If(c <= nr, z3.ToReal(c), (POW(base, z3.ToReal(c) - z3.ToReal(nr)) - 1) / (base - 1) + z3.ToReal(nr))


def batch_ok(F, a):
    return F.forall([(0, 2048)], lambda j: z3.And(a(j) >= 0, a(j) < 1))


@register
class Counter2Value(Contract):
    name = "countmin._counter2value"
    mode = "int"

    def requires(self, F):
        yield "base>1", F.base > 1

    def ensures(self, F):
        yield "spec", F.res == DEC(F.counter, F.num_reserved, F.base)


@register
class Rand(Contract):
    name = "countmin._rand"
    mode = "int"
    modifies = ("rand_batch",)

    def requires(self, F):
        yield "batch.len", F.rand_batch.shape[0] == 2048
        yield "ptr<=2048", F.rand_ptr <= 2048
        yield "batch-in-[0,1)", batch_ok(F, F.pre.rand_batch)

    def ensures(self, F):
        p = F.rand_ptr
        yield "next-ptr", F.res[1] == z3.If(p == 2048, 1, p + 1)
        yield "draw", F.res[0] == z3.If(p == 2048, F.post.rand_batch(0), F.pre.rand_batch(p))
        yield "no-refill-frame", z3.Implies(p != 2048, F.forall([(0, 2048)], lambda j: F.post.rand_batch(j) == F.pre.rand_batch(j)))
        yield "batch-in-[0,1)", batch_ok(F, F.post.rand_batch)
        yield "draw-in-[0,1)", z3.And(F.res[0] >= 0, F.res[0] < 1)


def unit_step(F, c0, draw):
    """counter after one unit add starting from c0 < ceiling (the law C06 states)"""
    nr = F.num_reserved
    return c0 + z3.If(c0 < nr, 1, z3.If(draw < POW(F.base, -(z3.ToReal(c0) - z3.ToReal(nr))), 1, 0))


@register
class LogCounter(Contract):
    name = "countmin._log_counter"
    mode = "int"
    modifies = ("rand_nums",)

    def requires(self, F):
        yield "batch.len", F.rand_nums.shape[0] == 2048
        yield "ptr<=2048", F.rand_ptr <= 2048
        yield "batch-in-[0,1)", batch_ok(F, F.pre.rand_nums)
        yield "base>1", F.base > 1
        yield "reserved<ceiling", F.num_reserved < F.uint_maxval

    def ghost_defs(self, F):
        return [POW(F.base, R(0)) == 1]  # instance of the axiom b^0 = 1

    def _draw(self, F, batch_after):
        return z3.If(F.rand_ptr == 2048, batch_after(0), F.pre.rand_nums(F.rand_ptr))

    def ensures(self, F):
        c0, v, nr, umax = F.counter, F.value, F.num_reserved, F.uint_maxval
        r0, r1 = F.res
        yield "w-range", z3.And(r0 >= c0, r0 <= z3.If(c0 >= umax, c0, zmin(c0 + v, umax)))
        yield "w-exact-reserved", z3.Implies(c0 + v <= nr + 1, r0 == c0 + v)
        yield "w-reserved-floor", r0 >= zmin(c0 + v, nr + 1)
        yield "w-absorbing", z3.Implies(c0 >= umax, z3.And(r0 == c0, r1 == F.rand_ptr))
        yield "x-unit-step", z3.Implies(
            z3.And(v == 1, c0 < umax),
            z3.And(
                r0 == unit_step(F, c0, self._draw(F, F.post.rand_nums)),
                r1 == z3.If(c0 < nr, F.rand_ptr, z3.If(F.rand_ptr == 2048, 1, F.rand_ptr + 1)),
            ),
        )
        yield "ptr<=2048", r1 <= 2048
        yield "batch-in-[0,1)", batch_ok(F, F.post.rand_nums)

    def _inv(self, F, L):
        c0, nr, umax = F.counter, F.num_reserved, F.uint_maxval
        k, c, ptr = L.k, L.var("counter"), L.var("rand_ptr")
        yield "w-range", z3.And(c >= c0, c <= c0 + k, z3.Or(c <= umax, c == c0))
        yield "w-exact-reserved", z3.Implies(c0 + k <= nr + 1, c == c0 + k)
        yield "w-reserved-floor", c >= zmin(c0 + k, nr + 1)
        yield "ptr<=2048", ptr <= 2048
        yield "batch-in-[0,1)", batch_ok(F, L.cur.rand_nums)
        yield "x-start", z3.Implies(k == 0, z3.And(c == c0, ptr == F.rand_ptr, F.forall([(0, 2048)], lambda j: L.cur.rand_nums(j) == F.pre.rand_nums(j))))
        yield "x-unit-step", z3.Implies(
            z3.And(k == 1, c0 < umax),
            z3.And(
                c == unit_step(F, c0, self._draw(F, L.cur.rand_nums)),
                ptr == z3.If(c0 < nr, F.rand_ptr, z3.If(F.rand_ptr == 2048, 1, F.rand_ptr + 1)),
            ),
        )
        yield "w-absorbing", z3.Implies(c0 >= umax, z3.And(c == c0, ptr == F.rand_ptr))

    @property
    def loops(self):
        return {0: self._inv}


@register
class QueryLog16(_Query):
    name = "countmin._query_log16"


@register
class QueryLog8(_Query):
    name = "countmin._query_log8"


class _AddLog(Contract):
    mode = "int"
    modifies = ("cms", "n_added_records", "buckets", "rand_nums")
    ceiling = None
    ghost_note = "m / new = minimum of the key's counters before / after the call (minimum of a finite set)"

    def requires(self, F):
        yield from table_requires(F, ceiling=self.ceiling)
        yield "batch.len", F.rand_nums.shape[0] == 2048
        yield "ptr<=2048", F.rand_ptr <= 2048
        yield "batch-in-[0,1)", batch_ok(F, F.pre.rand_nums)
        yield "base>1", F.base > 1
        yield "reserved<ceiling", F.num_reserved < F.uint_maxval

    def ghosts(self, F):
        return [("m", z3.IntSort()), ("new", z3.IntSort())]

    def ghost_defs(self, F):
        return is_min(F, F.g.m, F.pre.cms, F.key.kid, F.uint_maxval) + [POW(F.base, R(0)) == 1]

    def post_defs(self, F):
        return is_min(F, F.g.new, F.post.cms, F.key.kid, F.uint_maxval)

    def _draw(self, F):
        return z3.If(F.rand_ptr == 2048, F.post.rand_nums(0), F.pre.rand_nums(F.rand_ptr))

    def ensures(self, F):
        kid, m, new, umax, v, nr = F.key.kid, F.g.m, F.g.new, F.uint_maxval, F.value, F.num_reserved
        pre, post = F.pre, F.post
        cells = [(0, F.depth), (0, F.width)]
        yield "n_added", post.n_added_records(0) == wrap64(pre.n_added_records(0) + v)
        yield "n_records", post.n_added_records(1) == pre.n_added_records(1)
        yield "w-range", z3.And(new >= m, new <= z3.If(m >= umax, m, zmin(m + v, umax)))
        yield "w-exact-reserved", z3.Implies(m + v <= nr + 1, new == m + v)
        yield "w-reserved-floor", new >= zmin(m + v, nr + 1)
        yield "w-mono", F.forall(cells, lambda r, c: post.cms(r, c) >= pre.cms(r, c))
        yield "w-frame", F.forall(cells, lambda r, c: z3.Implies(c != COL(F, kid, r), post.cms(r, c) == pre.cms(r, c)))
        yield "w-ceiling", F.forall(cells, lambda r, c: post.cms(r, c) <= umax)
        yield "x-cells", F.forall(
            cells, lambda r, c: post.cms(r, c) == z3.If(z3.And(c == COL(F, kid, r), pre.cms(r, c) < new), new, pre.cms(r, c))
        )
        yield "x-unit-step", z3.Implies(
            z3.And(v == 1, m < umax),
            z3.And(new == unit_step(F, m, self._draw(F)), F.res == z3.If(m < nr, F.rand_ptr, z3.If(F.rand_ptr == 2048, 1, F.rand_ptr + 1))),
        )
        yield "x-buckets", F.forall([(0, F.depth)], lambda r: post.buckets(r) == COL(F, kid, r))
        yield "ptr<=2048", F.res <= 2048
        yield "batch-in-[0,1)", batch_ok(F, post.rand_nums)

    def _inv(self, F, L):
        kid = F.key.kid
        k = L.k
        new = L.var("new_count")
        pre, cur = F.pre, L.cur
        cells = [(0, F.depth), (0, F.width)]
        yield "x-done", F.forall(
            [(0, k), (0, F.width)],
            lambda r, c: cur.cms(r, c) == z3.If(z3.And(c == COL(F, kid, r), pre.cms(r, c) < new), new, pre.cms(r, c)),
        )
        yield "rest", F.forall(cells, lambda r, c: z3.Implies(r >= k, cur.cms(r, c) == pre.cms(r, c)))  # rows not yet visited are untouched (any row-by-row update rule)
        yield "w-lower", F.forall([(0, k)], lambda r: cur.cms(r, COL(F, kid, r)) >= new)
        yield "w-mono", F.forall(cells, lambda r, c: cur.cms(r, c) >= pre.cms(r, c))
        yield "w-frame", F.forall(cells, lambda r, c: z3.Implies(c != COL(F, kid, r), cur.cms(r, c) == pre.cms(r, c)))
        yield "w-upper", F.forall(
            [(0, F.depth)],
            lambda r: cur.cms(r, COL(F, kid, r)) <= z3.If(pre.cms(r, COL(F, kid, r)) >= new, pre.cms(r, COL(F, kid, r)), new),
        )
        yield "counters", z3.And(
            cur.n_added_records(0) == L.entry.n_added_records(0), cur.n_added_records(1) == L.entry.n_added_records(1)
        )

    @property
    def loops(self):
        return {0: self._inv}


@register
class AddLog16(_AddLog):
    name = "countmin._add_log16"
    ceiling = 65535


@register
class AddLog8(_AddLog):
    name = "countmin._add_log8"
    ceiling = 255


class _MergeLog(Contract):
    """cell-wise specification of the log merges over reals (the property's wording):
       v = decoded(a) + decoded(b);  v <= num_reserved -> a + b;  v >= max_count -> ceiling;
       otherwise the counter nearest to v among the two consecutive counters that bracket v
       (ties to the lower one).  ln / pow are uninterpreted; only instances of their defining
       laws at the terms of the current cell are assumed (listed in the evidence)."""

    mode = "int"
    modifies = ("cms", "n_added_records")
    ceiling = None

    def requires(self, F):
        yield "ceiling", F.uint_maxval == self.ceiling
        yield "cms.shape", z3.And(F.cms.shape[0] == F.depth, F.cms.shape[1] == F.width)
        yield "other.shape", z3.And(F.other_cms.shape[0] == F.depth, F.other_cms.shape[1] == F.width)
        yield "counters.len", z3.And(F.n_added_records.shape[0] >= 2, F.other_n_added_records.shape[0] >= 2)
        yield "base>1", F.base > 1
        yield "reserved<ceiling", F.num_reserved < F.uint_maxval
        yield "ceiling-decodes-to-max_count", DEC(F.uint_maxval, F.num_reserved, F.base) == z3.ToReal(F.max_count)

    ghost_note = "CELL(a, b, s) names the cell-wise merge relation (a definition, unfolded only where the name occurs)"

    def ghosts(self, F):
        return [("CELL", lambda nm: z3.Function(nm, z3.IntSort(), z3.IntSort(), z3.IntSort(), z3.BoolSort()))]

    def ghost_defs(self, F):
        x = z3.Real("powx")
        # axiom b^x > 1 for b > 1, x > 0 (uninterpreted POW).  The definition of CELL is unfolded
        # only for the cell being processed (inner invariant); users of the contract get it whole.
        return [z3.ForAll([x], z3.Implies(x > 0, POW(F.base, x) > 1), patterns=[POW(F.base, x)])]

    def call_defs(self, F):
        a, b, s_ = z3.Ints("ca cb cs")
        C = F.g.CELL
        return list(self.ghost_defs(F)) + [z3.ForAll([a, b, s_], C(a, b, s_) == self.cell(F, a, b, s_), patterns=[C(a, b, s_)])]

    def cell_def_at(self, F, a, b):
        s_ = z3.Int("cs")
        C = F.g.CELL
        return z3.ForAll([s_], C(a, b, s_) == self.cell(F, a, b, s_), patterns=[C(a, b, s_)])

    def bracket(self, F, a, b):
        """the counter cl with decoded(cl) <= v < decoded(cl+1), as a term: floor(log_base(...)) + nr"""
        nr, base = F.num_reserved, F.base
        v = DEC(a, nr, base) + DEC(b, nr, base)
        x = (v - z3.ToReal(nr)) * (base - 1) + 1
        cpf = LN(x) / LN(base)
        return v, x, cpf, z3.ToInt(cpf) + nr

    def law_instances(self, F, a, b):
        """instances of the laws of ln / pow at this cell's terms (definitional, assumed)"""
        nr, base, umax = F.num_reserved, F.base, F.uint_maxval
        v, x, cpf, cl = self.bracket(F, a, b)
        cp = z3.ToReal(cl - nr)
        return z3.And(
            z3.Implies(x > 0, POW(base, cpf) == x),  # b^(log_b x) = x
            LN(base) > 0,
            z3.Implies(x > 1, LN(x) > 0),
            POW(base, R(0)) == 1,
            z3.Implies(cp <= cpf, POW(base, cp) <= POW(base, cpf)),  # monotone in the exponent
            z3.Implies(cpf < cp + 1, POW(base, cpf) < POW(base, cp + 1)),
            z3.Implies(cp >= z3.ToReal(umax) - z3.ToReal(nr), POW(base, cp) >= POW(base, z3.ToReal(umax) - z3.ToReal(nr))),
            POW(base, cp + 1) == base * POW(base, cp),
            z3.Implies(a > nr, POW(base, z3.ToReal(a) - z3.ToReal(nr)) > 1),  # b^x > 1 for x > 0
            z3.Implies(b > nr, POW(base, z3.ToReal(b) - z3.ToReal(nr)) > 1),
        )

    def cell(self, F, a, b, s):
        nr, umax, base = F.num_reserved, F.uint_maxval, F.base
        v, x, cpf, cl = self.bracket(F, a, b)
        dl, dh = DEC(cl, nr, base), DEC(cl + 1, nr, base)
        mid = z3.And(v > z3.ToReal(nr), v < z3.ToReal(F.max_count))
        return z3.And(
            z3.Implies(v <= z3.ToReal(nr), s == a + b),
            z3.Implies(z3.And(v > z3.ToReal(nr), v >= z3.ToReal(F.max_count)), s == umax),
            # nearest of the two bracketing counters, ties down: stated as the ratio test
            # (v - dl)/(dh - dl) <= 1/2; lemma c09:ratio-test-is-nearest shows it is v - dl <= dh - v
            z3.Implies(mid, z3.And(cl >= nr, cl < umax, dl <= v, v < dh, s == z3.If((v - dl) / (dh - dl) <= z3.Q(1, 2), cl, cl + 1))),
        )

    def ensures(self, F):
        cells = [(0, F.depth), (0, F.width)]
        yield "x-cells", F.forall(cells, lambda r, c: F.g.CELL(F.pre.cms(r, c), F.other_cms(r, c), F.post.cms(r, c)))
        yield "x-n_added", F.post.n_added_records(0) == wrap64(F.pre.n_added_records(0) + F.other_n_added_records(0))
        yield "x-n_records", F.post.n_added_records(1) == wrap64(F.pre.n_added_records(1) + F.other_n_added_records(1))

    def _outer(self, F, L):
        k = L.k
        yield "rows-done", F.forall([(0, k), (0, F.width)], lambda r, c: F.g.CELL(F.pre.cms(r, c), F.other_cms(r, c), L.cur.cms(r, c)))
        yield "rows-rest", F.forall([(0, F.depth), (0, F.width)], lambda r, c: z3.Implies(r >= k, L.cur.cms(r, c) == F.pre.cms(r, c)))
        yield "counters", z3.And(L.cur.n_added_records(0) == F.pre.n_added_records(0), L.cur.n_added_records(1) == F.pre.n_added_records(1))

    def _inner(self, F, L):
        j = L.k
        row = L.var("row")
        if L.phase == "preserve":
            # proof script for the cell just written: (1) the stored value satisfies the cell relation
            # (quantifier-free, from the callee contracts and the ln/pow law instances), (2) unfold the
            # name CELL at this cell; the quantified clauses below then need no real arithmetic
            k0 = L.k_header
            a0, b0, s1 = L.header.cms(row, k0), F.other_cms(row, k0), L.cur.cms(row, k0)
            v_, x_, cpf_, cl_ = self.bracket(F, a0, b0)
            mid = z3.And(v_ > z3.ToReal(F.num_reserved), v_ < z3.ToReal(F.max_count))
            dl_, dh_ = DEC(cl_, F.num_reserved, F.base), DEC(cl_ + 1, F.num_reserved, F.base)
            yield "lemma-ground:log-argument>1", z3.Implies(mid, z3.And(x_ > 1, cpf_ > 0))
            yield "lemma-ground:bracket-lower", z3.Implies(mid, z3.And(cl_ >= F.num_reserved, dl_ <= v_))
            yield "lemma-ground:bracket-upper", z3.Implies(mid, v_ < dh_)
            yield "lemma-ground:bracket-below-ceiling", z3.Implies(mid, cl_ < F.uint_maxval)
            for nm, spec in (("clower", cl_), ("vlower", dl_), ("vhigher", dh_)):
                loc = L.local(nm)
                if loc is not None:  # only on the paths through the rounding branch
                    yield "lemma-ground:local-%s-is-the-spec-term" % nm, z3.Implies(mid, (z3.ToReal(loc) if z3.is_int(loc) and z3.is_real(spec) else loc) == spec)
                    if nm == "clower":
                        yield "lemma-ground:clower+1-fits-the-counter-type", z3.Implies(mid, z3.And(loc >= 0, loc + 1 <= F.uint_maxval, loc + 1 > F.num_reserved))
            yield "lemma-ground:cell-relation-at-the-written-cell", self.cell(F, a0, b0, s1)
            yield "def:CELL-unfolded-at-the-written-cell", F.g.CELL(a0, b0, s1) == self.cell(F, a0, b0, s1), True
        yield "row-range", z3.And(row >= 0, row < F.depth)
        yield "rows-done", F.forall([(0, row), (0, F.width)], lambda r, c: F.g.CELL(F.pre.cms(r, c), F.other_cms(r, c), L.cur.cms(r, c)))
        yield "row-done", F.forall([(0, j)], lambda c: F.g.CELL(F.pre.cms(row, c), F.other_cms(row, c), L.cur.cms(row, c)))
        yield "row-rest", F.forall([(0, F.width)], lambda c: z3.Implies(c >= j, L.cur.cms(row, c) == F.pre.cms(row, c)))
        yield "rows-rest", F.forall([(0, F.depth), (0, F.width)], lambda r, c: z3.Implies(r > row, L.cur.cms(r, c) == F.pre.cms(r, c)))
        yield "counters", z3.And(L.cur.n_added_records(0) == F.pre.n_added_records(0), L.cur.n_added_records(1) == F.pre.n_added_records(1))
        if L.phase == "assume":  # definitional instances for the cell processed next (never checked, only assumed)
            yield "def:ln-pow-laws-at-this-cell", self.law_instances(F, L.cur.cms(row, j), F.other_cms(row, j)), True

    @property
    def loops(self):
        return {0: self._outer, 1: self._inner}


@register
class MergeLog16(_MergeLog):
    name = "countmin._merge_log16"
    ceiling = 65535


@register
class MergeLog8(_MergeLog):
    name = "countmin._merge_log8"
    ceiling = 255
