"""Contracts for sketchnu/heavyhitters.py kernels (int mode): C03, C04, C13, C18.

Identity of a key = (its first max_key_len bytes zero padded to max_key_len, their number) - taken
from the property statement ("keys that differ only in length or in trailing NUL bytes are
different keys").  A cell *stores* an identity when its byte row and its key_lens entry equal it."""
import z3
from ..contract import Contract, register
from ..engine import KID
from .hashes import FH64
from .countmin import MAX32, wrap64, zmin


def ident(F):
    """(length, byte function j -> value, hash identity) of the key as stored: truncated + padded"""
    ln = zmin(F.key.len, F.max_key_len)
    kb = lambda j: z3.If(z3.And(j >= 0, j < ln), F.key(j), 0)
    kid = F.key.slice_kid(F.sem, 0, ln)
    return ln, kb, kid


def hcol(F, kid, r):
    return FH64(kid, r) % F.width


def stores(F, lhh, key_lens, r, c, ln, kb):
    return z3.And(F.forall([(0, F.max_key_len)], lambda j: lhh(r, c, j) == kb(j)), key_lens(r, c) == ln)


def hh_requires(F, others=()):
    yield "width>0", F.width > 0
    yield "ceiling", F.uint_maxval == MAX32
    for pfx in ("",) + tuple(others):
        lhh, cnt, kl = getattr(F, pfx + "lhh"), getattr(F, pfx + "lhh_count"), getattr(F, pfx + "key_lens")
        yield pfx + "lhh.shape", z3.And(lhh.shape[0] == F.depth, lhh.shape[1] == F.width, lhh.shape[2] == (F.max_key_len if hasattr(F, "max_key_len") else lhh.shape[2]))
        yield pfx + "lhh_count.shape", z3.And(cnt.shape[0] == F.depth, cnt.shape[1] == F.width)
        yield pfx + "key_lens.shape", z3.And(kl.shape[0] == F.depth, kl.shape[1] == F.width)


def add_cell(F, pre, r, c, ln, kb, value, new_lhh, new_cnt, new_kl, match=None):
    """the Boyer-Moore cell rule for cell (r,c) receiving `value` copies of identity (ln, kb)"""
    umax = F.uint_maxval
    cnt = pre.lhh_count(r, c)
    if match is None:
        match = stores(F, pre.lhh, pre.key_lens, r, c, ln, kb)
    same_id = z3.And(F.forall([(0, F.max_key_len)], lambda j: new_lhh(j) == pre.lhh(r, c, j)), new_kl == pre.key_lens(r, c))
    return z3.And(
        z3.Implies(match, z3.And(new_cnt == z3.If(value < umax - cnt, cnt + value, umax), same_id)),
        z3.Implies(z3.And(z3.Not(match), value > cnt), z3.And(new_cnt == value - cnt, new_kl == ln, F.forall([(0, F.max_key_len)], lambda j: new_lhh(j) == kb(j)))),
        z3.Implies(z3.And(z3.Not(match), value <= cnt), z3.And(new_cnt == cnt - value, same_id)),
    )


@register
class HHAdd(Contract):
    name = "heavyhitters._add"
    mode = "int"
    modifies = ("lhh", "lhh_count", "key_lens", "n_added_records")

    def requires(self, F):
        yield from hh_requires(F)
        yield "1<=max_key_len<=255", z3.And(F.max_key_len >= 1, F.max_key_len <= 255)
        yield "counters.len", F.n_added_records.shape[0] >= 2

    ghost_note = "match(r) names the predicate 'the key's cell in row r stores the key's identity before the call' (a definition)"

    def ghosts(self, F):
        return [("match", lambda nm: z3.Function(nm, z3.IntSort(), z3.BoolSort()))]

    def ghost_defs(self, F):
        ln, kb, kid = ident(F)
        q = z3.Int("q!match")
        m = F.g.match
        return [z3.ForAll([q], m(q) == stores(F, F.pre.lhh, F.pre.key_lens, q, hcol(F, kid, q), ln, kb), patterns=[m(q)])]

    def row_done(self, F, cur, r):
        ln, kb, kid = ident(F)
        c = hcol(F, kid, r)
        return z3.And(
            add_cell(F, F.pre, r, c, ln, kb, F.value, lambda j: cur.lhh(r, c, j), cur.lhh_count(r, c), cur.key_lens(r, c), match=F.g.match(r)),
            F.forall(
                [(0, F.width)],
                lambda c2: z3.Implies(
                    c2 != c,
                    z3.And(
                        cur.lhh_count(r, c2) == F.pre.lhh_count(r, c2),
                        cur.key_lens(r, c2) == F.pre.key_lens(r, c2),
                        F.forall([(0, F.max_key_len)], lambda j: cur.lhh(r, c2, j) == F.pre.lhh(r, c2, j)),
                    ),
                ),
            ),
        )

    def row_same(self, F, cur, r):
        return F.forall(
            [(0, F.width)],
            lambda c2: z3.And(
                cur.lhh_count(r, c2) == F.pre.lhh_count(r, c2),
                cur.key_lens(r, c2) == F.pre.key_lens(r, c2),
                F.forall([(0, F.max_key_len)], lambda j: cur.lhh(r, c2, j) == F.pre.lhh(r, c2, j)),
            ),
        )

    def ensures(self, F):
        yield "n_added", F.post.n_added_records(0) == wrap64(F.pre.n_added_records(0) + F.value)
        yield "n_records", F.post.n_added_records(1) == F.pre.n_added_records(1)
        yield "x-rows", F.forall([(0, F.depth)], lambda r: self.row_done(F, F.post, r))

    def _inv(self, F, L):
        k = L.k
        if L.phase == "preserve":
            # proof script: the row just processed obeys the cell rule; earlier rows are untouched by
            # this iteration (they were done before); x-done is then the union of the two
            k0 = L.k_header
            yield "lemma:row-just-processed-obeys-the-cell-rule", self.row_done(F, L.cur, k0)
            yield "lemma:earlier-rows-stay-done", F.forall([(0, k0)], lambda r: self.row_done(F, L.cur, r))
        yield ("from-lemmas:" if L.phase == "preserve" else "") + "x-done", F.forall([(0, k)], lambda r: self.row_done(F, L.cur, r))
        yield "x-rest", F.forall([(0, F.depth)], lambda r: z3.Implies(r >= k, self.row_same(F, L.cur, r)))
        yield "counters", z3.And(
            L.cur.n_added_records(0) == L.entry.n_added_records(0), L.cur.n_added_records(1) == L.entry.n_added_records(1)
        )

    @property
    def loops(self):
        return {0: self._inv}


@register
class HHMaxCount(Contract):
    name = "heavyhitters._max_count"
    mode = "int"

    def requires(self, F):
        yield "width>0", F.width > 0
        yield "lhh.shape", z3.And(F.lhh.shape[0] == F.depth, F.lhh.shape[1] == F.width, F.lhh.shape[2] == F.max_key_len)
        yield "lhh_count.shape", z3.And(F.lhh_count.shape[0] == F.depth, F.lhh_count.shape[1] == F.width)
        yield "key_lens.shape", z3.And(F.key_lens.shape[0] == F.depth, F.key_lens.shape[1] == F.width)
        yield "key_len==len(key)<=max_key_len", z3.And(F.key_len == F.key.len, F.key.len <= F.max_key_len)
        yield "1<=max_key_len", F.max_key_len >= 1

    def matches(self, F, r):
        ln, kb, kid = ident(F)
        return stores(F, F.pre.lhh, F.pre.key_lens, r, hcol(F, kid, r), ln, kb)

    def ensures(self, F):
        ln, kb, kid = ident(F)
        cnt = lambda r: F.pre.lhh_count(r, hcol(F, kid, r))
        yield "nonneg", F.res >= 0
        yield "upper", F.forall([(0, F.depth)], lambda r: z3.Implies(self.matches(F, r), F.res >= cnt(r)))
        yield "attained", z3.Or(F.res == 0, F.exists([(0, F.depth)], lambda r: z3.And(self.matches(F, r), F.res == cnt(r))))

    def _inv(self, F, L):
        ln, kb, kid = ident(F)
        cnt = lambda r: F.pre.lhh_count(r, hcol(F, kid, r))
        k, mc = L.k, L.var("max_count")
        yield "nonneg", mc >= 0
        yield "upper", F.forall([(0, k)], lambda r: z3.Implies(self.matches(F, r), mc >= cnt(r)))
        yield "attained", z3.Or(mc == 0, F.exists([(0, k)], lambda r: z3.And(self.matches(F, r), mc == cnt(r))))

    @property
    def loops(self):
        return {0: self._inv}


def merge_cell(F, a, b, r, c, new_lhh, new_cnt, new_kl):
    umax = F.uint_maxval
    ca, cb = a.lhh_count(r, c), b.lhh_count(r, c)
    match = z3.And(F.forall([(0, F.lhh.shape[2])], lambda j: a.lhh(r, c, j) == b.lhh(r, c, j)), a.key_lens(r, c) == b.key_lens(r, c))
    keep = z3.And(F.forall([(0, F.lhh.shape[2])], lambda j: new_lhh(j) == a.lhh(r, c, j)), new_kl == a.key_lens(r, c))
    take = z3.And(F.forall([(0, F.lhh.shape[2])], lambda j: new_lhh(j) == b.lhh(r, c, j)), new_kl == b.key_lens(r, c))
    return z3.And(
        z3.Implies(match, z3.And(new_cnt == z3.If(cb > umax - ca, umax, ca + cb), keep)),
        z3.Implies(z3.And(z3.Not(match), ca >= cb), z3.And(new_cnt == ca - cb, keep)),
        z3.Implies(z3.And(z3.Not(match), ca < cb), z3.And(new_cnt == cb - ca, take)),
    )


class _B:
    """view of the `other_*` arguments under the names lhh / lhh_count / key_lens"""

    def __init__(self, F):
        self.lhh, self.lhh_count, self.key_lens = F.other_lhh, F.other_lhh_count, F.other_key_lens


@register
class HHMerge(Contract):
    name = "heavyhitters._merge"
    mode = "int"
    modifies = ("lhh", "lhh_count", "key_lens", "n_added_records")

    def requires(self, F):
        yield from hh_requires(F, others=("other_",))
        yield "same-key-width", F.lhh.shape[2] == F.other_lhh.shape[2]
        yield "counters.len", z3.And(F.n_added_records.shape[0] >= 2, F.other_n_added_records.shape[0] >= 2)

    def cell(self, F, cur, r, c):
        return merge_cell(F, F.pre, _B(F), r, c, lambda j: cur.lhh(r, c, j), cur.lhh_count(r, c), cur.key_lens(r, c))

    def same(self, F, cur, r, c):
        return z3.And(
            cur.lhh_count(r, c) == F.pre.lhh_count(r, c),
            cur.key_lens(r, c) == F.pre.key_lens(r, c),
            F.forall([(0, F.lhh.shape[2])], lambda j: cur.lhh(r, c, j) == F.pre.lhh(r, c, j)),
        )

    def ensures(self, F):
        yield "x-cells", F.forall([(0, F.depth), (0, F.width)], lambda r, c: self.cell(F, F.post, r, c))
        yield "x-n_added", F.post.n_added_records(0) == wrap64(F.pre.n_added_records(0) + F.other_n_added_records(0))
        yield "x-n_records", F.post.n_added_records(1) == wrap64(F.pre.n_added_records(1) + F.other_n_added_records(1))

    def _outer(self, F, L):
        k = L.k
        yield "rows-done", F.forall([(0, k), (0, F.width)], lambda r, c: self.cell(F, L.cur, r, c))
        yield "rows-rest", F.forall([(0, F.depth), (0, F.width)], lambda r, c: z3.Implies(r >= k, self.same(F, L.cur, r, c)))
        yield "counters", z3.And(L.cur.n_added_records(0) == F.pre.n_added_records(0), L.cur.n_added_records(1) == F.pre.n_added_records(1))

    def _inner(self, F, L):
        j, row = L.k, L.var("row")
        yield "row-range", z3.And(row >= 0, row < F.depth)
        yield "rows-done", F.forall([(0, row), (0, F.width)], lambda r, c: self.cell(F, L.cur, r, c))
        yield "row-done", F.forall([(0, j)], lambda c: self.cell(F, L.cur, row, c))
        yield "row-rest", F.forall([(0, F.width)], lambda c: z3.Implies(c >= j, self.same(F, L.cur, row, c)))
        yield "rows-rest", F.forall([(0, F.depth), (0, F.width)], lambda r, c: z3.Implies(r > row, self.same(F, L.cur, r, c)))
        yield "counters", z3.And(L.cur.n_added_records(0) == F.pre.n_added_records(0), L.cur.n_added_records(1) == F.pre.n_added_records(1))

    @property
    def loops(self):
        return {0: self._outer, 1: self._inner}
