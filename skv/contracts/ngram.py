"""Contracts for the n-gram kernels of count-min and heavy hitters: *call-sequence* contracts.

add_ngram(key, n) is specified as: exactly one call of the family's add kernel per window
key[i:i+n], i = 0 .. len-n, in order, with multiplicity 1 (or one call on the whole key when
len(key) <= n), on the caller's own tables, threading the random pointer for the log families, and
nothing else is stored.  The resulting state therefore is, by the callee's contract, the state
after adding every window - which is what C12 states.  (HyperLogLog's n-gram kernel has a ghost-fold
contract instead, see hyperloglog.py.)"""
import z3
from ..contract import Contract, register, REGISTRY
from ..engine import Sc, ArrV, BytesV
from . import countmin as CM
from . import heavyhitters as HH

FALSE = z3.BoolVal(False)
TRUE = z3.BoolVal(True)


class _Ngram(Contract):
    mode = "int"
    callee = None
    pointer = False
    arrays = ()

    @property
    def modifies(self):
        return REGISTRY[self.callee].modifies

    def requires(self, F):
        # whatever the callee needs except facts about its own key / value arguments
        c = REGISTRY[self.callee]
        F.value = z3.IntVal(1)
        for n, f in c.requires(F):
            yield n, f
        yield "ngram>=1", F.ngram >= 1

    def nwin(self, F):
        return z3.If(F.key.len <= F.ngram, 1, F.key.len - F.ngram + 1)

    def call_ok(self, F, call, kid, ptr_in):
        """one callee call on the caller's own arrays / parameters, with key identity `kid`, value 1"""
        name, args, res = call
        if name != self.callee:
            return FALSE
        conj = []
        for pn, v in args.items():
            if isinstance(v, ArrV):
                mine = F.argvals.get(pn)
                if not isinstance(mine, ArrV) or mine.aid != v.aid:
                    return FALSE
            elif isinstance(v, BytesV):
                conj.append(v.kid == kid)
            elif isinstance(v, Sc):
                if pn == "value":
                    conj.append(v.t == 1)
                elif pn == "rand_ptr":
                    conj.append(v.t == ptr_in)
                else:
                    mine = F.argvals.get(pn)
                    if not isinstance(mine, Sc):
                        return FALSE
                    conj.append(v.t == mine.t)
        return z3.And(*conj) if conj else TRUE

    def ensures(self, F):
        calls = getattr(F, "calls", None)
        if calls is None:
            return
        looped = F.loop_k(0) is not None
        if not looped:
            ok = self.call_ok(F, calls[0], F.key.kid, F.rand_ptr if self.pointer else None) if len(calls) == 1 else FALSE
            yield "x-short-key:one-add-of-the-whole-key", z3.And(F.key.len <= F.ngram, ok)
            if self.pointer:
                yield "x-short-key:returns-the-new-pointer", (F.res == calls[0][2].t) if len(calls) == 1 else FALSE
        else:
            yield "x-windows:count", z3.And(F.key.len > F.ngram, F.loop_k(0) == F.key.len - F.ngram + 1)
            yield "x-windows:no-call-after-the-loop", TRUE if len(calls) == 0 else FALSE
            if self.pointer:
                rp = F.local("rand_ptr")
                yield "x-windows:returns-the-threaded-pointer", (F.res == rp) if rp is not None else FALSE

    def _inv(self, F, L):
        yield "n==nwin", L.n == F.key.len - F.ngram + 1
        yield "long-key", F.key.len > F.ngram
        if self.pointer:
            yield "ptr<=2048", L.var("rand_ptr") <= 2048
            yield "batch-in-[0,1)", CM.batch_ok(F, L.cur.rand_nums)
        if L.phase != "preserve":
            return
        calls = L.calls
        k0 = L.k_header
        kid = F.key.slice_kid(F.sem, k0, F.ngram)
        ptr_in = L.at_header("rand_ptr") if self.pointer else None
        ok = self.call_ok(F, calls[0], kid, ptr_in) if len(calls) == 1 else FALSE
        yield "x-one-add-per-window", ok
        if self.pointer:
            yield "x-pointer-threaded", (L.var("rand_ptr") == calls[0][2].t) if len(calls) == 1 else FALSE

    @property
    def loops(self):
        return {0: self._inv}


@register
class NgramLinear(_Ngram):
    name = "countmin._add_ngram_linear"
    callee = "countmin._add_linear"


@register
class NgramLog16(_Ngram):
    name = "countmin._add_ngram_log16"
    callee = "countmin._add_log16"
    pointer = True


@register
class NgramLog8(_Ngram):
    name = "countmin._add_ngram_log8"
    callee = "countmin._add_log8"
    pointer = True


@register
class NgramHH(_Ngram):
    name = "heavyhitters._add_ngram"
    callee = "heavyhitters._add"
