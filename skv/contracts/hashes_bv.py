"""C11 contracts: the real hash kernels equal the reference algorithms (bit-vector mode).

The unbounded block loop is handled by a ghost function fold(i) = state after i blocks, defined by
its recurrence; only *instances* of the recurrence are assumed (fold(0) at entry, fold(k+1) at the
loop head for the current k), so no quantifier reaches the solver.
"""
import z3
from ..contract import Contract, register
from ..spec import hashes as SP

A64, A32 = SP.Z3Alg(64), SP.Z3Alg(32)
BV64 = z3.BitVecSort(64)


def bv(v, w=64):
    return z3.BitVecVal(v, w)


class _Pure(Contract):
    mode = "bv"


@register
class XorShiftl(_Pure):
    name = "hashes._xor_shiftl"

    def requires(self, F):
        yield "shift<64", z3.ULT(F.wide("l"), bv(64))

    def ensures(self, F):
        yield "spec", F.res == F.wide("v") ^ (F.wide("t") << F.wide("l"))


@register
class FhMix64(_Pure):
    name = "hashes._fhmix64"

    def ensures(self, F):
        yield "spec", F.res == SP.fh_mix(A64, F.h)


def le64(key, off):
    """little-endian 64-bit word at byte offset off of bytes accessor key"""
    return z3.Concat(*[key(off + bv(j)) for j in reversed(range(8))])


def le32(key, off):
    return z3.Concat(*[key(off + bv(j)) for j in reversed(range(4))])


FOLD64 = z3.Function("FH_FOLD", BV64, BV64, BV64, BV64)  # (key identity, seed, #blocks) -> state
# FH64B(key identity, seed): the value of the reference FastHash64, as a named function (bv mode)
FH64B = z3.Function("FH64B", BV64, BV64, BV64)


def fold_of(F):
    return lambda i: FOLD64(F.key.kid, F.wide("seed"), i)


def fh64_tail(F):
    n = F.key.len
    nb = z3.LShR(n, bv(3))
    t = n & bv(7)
    V = bv(0)
    for j in reversed(range(7)):
        V = V ^ z3.If(z3.ULT(bv(j), t), z3.ZeroExt(56, F.key(nb * bv(8) + bv(j))) << bv(8 * j), bv(0))
    return V


def fh64_final(F, fold):
    n = F.key.len
    nb = z3.LShR(n, bv(3))
    t = n & bv(7)
    H = fold(nb)
    return SP.fh_mix(A64, z3.If(t == bv(0), H, SP.fh_step(A64, H, fh64_tail(F))))


@register
class FastHash64(_Pure):
    name = "hashes.fasthash64"
    ghost_note = "FH_FOLD(key, seed, i) = state of the reference algorithm after i whole blocks (defined by recursion on i)"

    def ghost_defs(self, F):
        return [fold_of(F)(bv(0)) == SP.fh_init(A64, F.key.len, F.wide("seed"))]

    def ensures(self, F):
        n = F.key.len
        nb, t = z3.LShR(n, bv(3)), n & bv(7)
        # proof hints (dropped when not provable on a path): block count, tail case, tail word
        k = F.loop_k(0)
        yield "hint:nblocks", nb == (k if k is not None else bv(0))
        yield "hint:no-tail", (t == bv(0)) == z3.BoolVal(True)
        yield "hint:has-tail", (t == bv(0)) == z3.BoolVal(False)
        v = F.local("v")
        if v is not None:
            yield "hint:tail-word", fh64_tail(F) == v
        yield "spec", F.res == fh64_final(F, fold_of(F))

    def _inv(self, F, L):
        k = L.k
        fold = fold_of(F)
        yield "h==fold(k)", L.var("h") == fold(k)
        yield "k<=nblocks", z3.ULE(k, z3.LShR(F.key.len, bv(3)))
        yield "len(blocks)", L.n == z3.LShR(F.key.len, bv(3))
        # instance of the defining recurrence at the current block (definitional, assumed)
        yield "def:fold-step", z3.Implies(
            z3.ULT(k, z3.LShR(F.key.len, bv(3))),
            fold(k + bv(1)) == SP.fh_step(A64, fold(k), le64(F.key, k * bv(8))),
        ), True

    @property
    def loops(self):
        return {0: self._inv}

    # callers see the *name* only: FH64B(key, seed) is by definition the reference value
    # fh64_final(key, seed) that clause "spec" proves the result equal to
    def call_defs(self, F):
        return ()

    def call_ensures(self, F, mode):
        yield "named", F.res == FH64B(F.key.kid, F.wide("seed"))


@register
class FastHash32(_Pure):
    name = "hashes.fasthash32"

    def ensures(self, F):
        # reference fasthash32: h - (h >> 32) of the reference fasthash64 (= FH64B by definition)
        h = FH64B(F.key.kid, F.wide("seed"))
        yield "spec", F.res == z3.Extract(31, 0, h - z3.LShR(h, bv(32)))


# ------------------------------------------------------------------ MurmurHash3_x86_32
BV32 = z3.BitVecSort(32)


def bv32(v):
    return z3.BitVecVal(v, 32)


def low32(t):
    return t if t.size() == 32 else z3.Extract(31, 0, t)


@register
class Xor32(_Pure):
    name = "hashes._xor32"

    def ensures(self, F):
        yield "spec", F.res == F.x ^ F.y


@register
class Shift32r(_Pure):
    name = "hashes._shift32r"

    def requires(self, F):
        yield "shift<32", z3.ULT(F.y, bv32(32))

    def ensures(self, F):
        yield "spec", F.res == z3.LShR(F.x, F.y)


@register
class Shift32l(_Pure):
    name = "hashes._shift32l"

    def requires(self, F):
        yield "shift<32", z3.ULT(F.y, bv32(32))

    def ensures(self, F):
        yield "spec", F.res == F.x << F.y


@register
class Rotl32(_Pure):
    name = "hashes._rotl32"

    def requires(self, F):
        yield "0<r<32", z3.And(z3.ULT(bv32(0), F.r), z3.ULT(F.r, bv32(32)))

    def ensures(self, F):
        yield "spec", F.res == z3.RotateLeft(F.x, F.r)


@register
class Fmix32(_Pure):
    name = "hashes._fmix32"

    def ensures(self, F):
        yield "spec", F.res == SP.mm_fmix(A32, F.h)


MM_FOLD = z3.Function("MM_FOLD", BV64, BV32, BV64, BV32)  # (key identity, seed, #blocks) -> h1


def mm_tail(F, nb, t):
    """reference tail word for tail length t (nested on the atoms t == c so that hints can rewrite them)"""
    def w(c):
        v = bv32(0)
        for j in reversed(range(c)):
            v = v ^ (z3.ZeroExt(24, F.key(nb * bv(4) + bv(j))) << bv32(8 * j))
        return v

    return z3.If(t == bv(3), w(3), z3.If(t == bv(2), w(2), z3.If(t == bv(1), w(1), bv32(0))))


def mm_final(F, nb, t):
    H = MM_FOLD(F.key.kid, F.seed, nb)
    T = mm_tail(F, nb, t)
    h = z3.If(t == bv(0), H, H ^ SP.mm_k(A32, T))
    h = h ^ z3.Extract(31, 0, F.key.len)
    return SP.mm_fmix(A32, h)


@register
class Murmur3(_Pure):
    name = "hashes.murmur3"
    ghost_note = "MM_FOLD(key, seed, i) = h1 of the reference algorithm after i whole 4-byte blocks"

    def requires(self, F):
        yield "len<2^31", z3.ULT(F.key.len, bv(1 << 31))

    def ghost_defs(self, F):
        return [MM_FOLD(F.key.kid, F.seed, bv(0)) == F.seed]

    def ensures(self, F):
        n = F.key.len
        nb, t = z3.LShR(n, bv(2)), n & bv(3)
        k = F.loop_k(0)
        yield "hint:nblocks", nb == (k if k is not None else bv(0))
        for c in range(4):
            yield "hint:t==%d" % c, (t == bv(c)) == z3.BoolVal(True)
            yield "hint:t!=%d" % c, (t == bv(c)) == z3.BoolVal(False)
        tw = z3.simplify(mm_tail(F, nb, t))
        for i, kv in enumerate(F.locals("k1")):
            yield "hint:tail-word#%d" % i, tw == low32(kv)
        yield "spec", F.res == mm_final(F, nb, t)

    def _inv(self, F, L):
        k = L.k
        nb = z3.LShR(F.key.len, bv(2))
        yield "h==fold(k)", low32(L.var("h")) == MM_FOLD(F.key.kid, F.seed, k)
        yield "k<=nblocks", z3.And(k >= 0, k <= nb)
        yield "n==nblocks", L.n == nb
        yield "def:fold-step", z3.Implies(
            z3.ULT(k, nb),
            MM_FOLD(F.key.kid, F.seed, k + bv(1)) == SP.mm_step(A32, MM_FOLD(F.key.kid, F.seed, k), le32(F.key, k * bv(4))),
        ), True

    @property
    def loops(self):
        return {0: self._inv}
