from . import hashes, hashes_bv, countmin, hyperloglog  # noqa: F401  (registration side effects)
