from . import hashes, hashes_bv, countmin, hyperloglog, heavyhitters  # noqa: F401  (registration side effects)
