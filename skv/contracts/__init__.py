from . import hashes, hashes_bv, countmin  # noqa: F401  (registration side effects)
