from . import hashes, hashes_bv, countmin, hyperloglog, heavyhitters, ngram  # noqa: F401  (registration side effects)
