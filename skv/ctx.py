"""Check context: collects obligations / stand-ins / assumptions, decides the verdict, writes
evidence and replay files, prints VIOLATION / KNOWN-FINDING / UNDECIDED lines.

Exit codes: 0 held, 1 violation (with replay file), 2 undecided, 3 checker error.
"""
import collections
import json
import os
import re
import sys
import time
import traceback

import z3

from . import solve
from .contract import REGISTRY
from .engine import Engine, Unsupported, BindingLost, Obligation
from .extract import typed_ir

VERIF = os.path.dirname(os.path.dirname(os.path.abspath(__file__)))
REPO = os.environ.get("SKV_REPO", "/repo")
OUT = os.environ.get("SKV_OUT", VERIF)  # where evidence/ and replay/ are written (development: seed matrix)

TRUSTED_BASE = [
    "Numba after type inference (typed rewrites, parfor conversion, lowering), llvmlite/LLVM, the CPU",
    "the primitive table skv/sem.py (semantics of each typed-IR operation; cross-checked concretely each run, not proved)",
    "z3 soundness",
    "dispatcher unboxing: an in-range Python/NumPy integer reaches the kernel as the declared parameter type",
]


def _san(s):
    return re.sub(r"[^A-Za-z0-9_.-]+", "_", s)[:120]


def small_model(ob, extra, rlimit=50_000_000):
    """re-solve a refuted obligation with extra size constraints to obtain a replayable model"""
    s = z3.Solver()
    s.set("rlimit", rlimit)
    for h in ob.hyps:
        s.add(h)
    s.add(z3.Not(ob.goal))
    for e in extra:
        s.add(e)
    return s.model() if s.check() == z3.sat else None


class Check:
    def __init__(self, pid, tier="quick", seed=0):
        self.pid, self.tier, self.seed = pid, tier, seed
        self.t0 = time.time()
        self.rows = []  # aggregated obligations
        self.done = set()  # (part, class) pairs already examined in this run: shared parts are idempotent
        self.functions = []
        self.assumptions = set()
        self.trusted = list(TRUSTED_BASE)
        self.bounded = []
        self.vacuity = []
        self.violations = []
        self.known_hits = []
        self.undecided = []
        self.errors = []
        self.samples = []
        self.hints = collections.Counter()
        self.crosscheck = {"cases": 0, "mismatches": 0}
        self.solver_seconds = 0.0
        self.notes = []
        self.modules = {}
        kf = os.path.join(VERIF, "known_findings.json")
        self.known = json.load(open(kf))["findings"] if os.path.exists(kf) else []
        bl = os.path.join(VERIF, "baseline", pid + ".json")
        self.baseline = {pid: json.load(open(bl))} if os.path.exists(bl) else {}

    # ------------------------------------------------------------------ tree under test
    def module(self, name):
        if name not in self.modules:
            import importlib
            import warnings

            with warnings.catch_warnings():
                warnings.simplefilter("ignore")
                self.modules[name] = importlib.import_module("sketchnu." + name)
            f = self.modules[name].__file__
            if not os.path.realpath(f).startswith(os.path.realpath(REPO)):
                raise RuntimeError("sketchnu imported from %s, expected under %s" % (f, REPO))
        return self.modules[name]

    # ------------------------------------------------------------------ kernels (front end A)
    def kernel(self, qualname, clause_filter=None, timeout_ms=30000, replayer=None, tag="K"):
        """verify kernel `module.func` against its sidecar contract; returns list of raw obligations"""
        if clause_filter is None:
            if ("kernel", qualname) in self.done:
                return []  # already verified against its full contract in this run
            self.done.add(("kernel", qualname))
        modname, fname = qualname.split(".")
        disp = getattr(self.module(modname), fname, None)
        if disp is None:
            self.undecided.append((qualname, "function not found in the tree under test"))
            return []
        contract = REGISTRY[qualname]
        try:
            tir = typed_ir(disp)
        except Exception as e:  # numba typing failure etc.
            self.undecided.append((qualname, "typed IR extraction failed: %r" % (e,)))
            return []
        self.functions.append({"name": "sketchnu." + qualname, "where": tir.where.replace(REPO + "/", ""), "ir_hash": tir.hash, "mode": contract.mode})
        eng = Engine(tir, contract, REGISTRY)
        eng.clause_filter = clause_filter
        try:
            obs = eng.run()
        except BindingLost as e:
            self.undecided.append((qualname, "contract binding lost: %s" % e))
            return []
        except Unsupported as e:
            self.undecided.append((qualname, "unsupported construct: %s" % e))
            return []
        except z3.Z3Exception as e:
            # a clause of the sidecar contract is ill-sorted for this function's current parameter
            # types: the contract no longer describes the function - undecided, not a crash
            self.undecided.append((qualname, "contract does not type-check against the function's current signature: %s" % str(e)[:160]))
            return []
        self.assumptions |= eng.sem.assumptions
        for a in eng.assumed:
            self.assumptions.add("definitional axiom instance assumed: " + a)
        if contract.ghost_note:
            self.assumptions.add("ghost of %s: %s" % (qualname, contract.ghost_note))
        for h in eng.hints:
            self.hints[h.result] += 1
        if not obs:
            self.errors.append("zero obligations generated for " + qualname)
            return []
        solve.discharge_all(obs, None, self.baseline.get(self.pid, {}))
        # vacuity guard: the hypotheses at (some) normal return must be satisfiable
        posts = [o for o in obs if o.kind == "post"]
        seen, verdicts = set(), []
        for o in posts:
            if o.path in seen or len(seen) >= 3:
                continue
            seen.add(o.path)
            s_ = z3.Solver()
            s_.set("rlimit", 30_000_000)
            for h in o.hyps:
                s_.add(h)
            verdicts.append(str(s_.check()))
        if posts:
            ok = any(v != "unsat" for v in verdicts)
            self.vacuity.append({"cover": qualname + ":return-reachable", "result": verdicts, "ok": ok})
            if not ok:
                self.errors.append("vacuity: no return path of %s has satisfiable hypotheses" % qualname)
        self._aggregate(obs, tag, eng, tir, contract, replayer)
        return obs

    def _aggregate(self, obs, tag, eng=None, tir=None, contract=None, replayer=None):
        agg = collections.OrderedDict()
        for o in obs:
            agg.setdefault(o.name, []).append(o)
        for name, lst in agg.items():
            secs = sum(o.seconds for o in lst)
            self.solver_seconds += secs
            res = "proved"
            if any(o.result == "refuted" for o in lst):
                res = "refuted"
            elif any(o.result != "proved" for o in lst):
                res = "open"
            row = {
                "name": name,
                "kind": tag,
                "backend": "+".join(sorted(set(o.backend for o in lst))),
                "result": res,
                "instances": len(lst),
                "seconds": round(secs, 3),
                "units": max(getattr(o, "units", 0) or 0 for o in lst),
            }
            self.rows.append(row)
            if len(self.samples) < 4 and res == "proved" and lst[0].kind == "post":
                self.samples.append({"obligation": name, "goal": str(lst[0].goal)[:600], "hypotheses": len(lst[0].hyps)})
            if res != "proved":
                bad = [o for o in lst if o.result != "proved"]
                self._failed(name, res, bad, eng, tir, contract, replayer)

    def _failed(self, name, res, bad, eng, tir, contract, replayer):
        info = {
            "obligation": name,
            "verdict": res,
            "solver": [{"path": o.path, "result": o.result, "reason": o.reason, "seconds": round(o.seconds, 2)} for o in bad[:6]],
            "line": bad[0].loc,
        }
        found = None
        if replayer is not None:
            try:
                found = replayer(self, bad, tir, contract)
            except Exception:
                info["replay_error"] = traceback.format_exc()[-1500:]
        if res == "open" and found is None:
            reasons = "; ".join(sorted(set(o.reason for o in bad)))
            in_baseline = name in self.baseline.get(self.pid, {})
            if "timeout" in reasons or not in_baseline:
                # wall-clock cap, or an obligation that was never proved on the unchanged tree
                # (e.g. its name changed with the code): undecided, never a violation
                self.undecided.append((name, "solver gave up (%s) and no failing input was found" % reasons))
                return
            info["note"] = "obligation proved on the unchanged tree (baseline) and is now open within the deterministic budget"
        self.violation(name, info, found)

    # ------------------------------------------------------------------ lemmas (layer C) and other obligations
    def prove(self, name, hyps, goal, tag="L", timeout_ms=30000, expect="proved", found=None):
        ob = Obligation("", tag, name, hyps, goal, 0, None)
        solve.discharge(ob, None, rlimit=solve.budget_for(self.baseline.get(self.pid, {}).get(name)))
        self.solver_seconds += ob.seconds
        if expect == "refuted":  # canary: a deliberately wrong clause must be refuted
            ok = ob.result == "refuted"
            self.vacuity.append({"canary": name, "result": ob.result, "ok": ok})
            if not ok:
                self.errors.append("canary %s was not refuted (%s): vacuous hypotheses?" % (name, ob.result))
            return ob
        row = {"name": name, "kind": tag, "backend": ob.backend, "result": ob.result, "instances": 1, "seconds": round(ob.seconds, 3), "units": getattr(ob, "units", 0)}
        self.rows.append(row)
        if len(self.samples) < 6 and ob.result == "proved":
            self.samples.append({"obligation": name, "goal": str(goal)[:600], "hypotheses": len(hyps)})
        if ob.result != "proved":
            fnd = found if found is not None else getattr(self, "default_found", None)
            self._failed(name, ob.result, [ob], None, None, None, (lambda *a: fnd()) if fnd is not None else None)
        return ob

    def cover(self, name, formulas, timeout_ms=10000):
        """vacuity guard: the hypotheses must be satisfiable"""
        s = z3.Solver()
        s.set("timeout", timeout_ms)
        for f in formulas:
            s.add(f)
        r = s.check()
        ok = r != z3.unsat
        self.vacuity.append({"cover": name, "result": str(r), "ok": ok})
        if not ok:
            self.errors.append("vacuity: hypotheses of %s are contradictory" % name)
        return ok

    # ------------------------------------------------------------------ verdict bookkeeping
    def violation(self, obligation, info, found):
        """found: None or dict(key=..., inputs=..., expected=..., observed=..., how=...)"""
        key = (found or {}).get("key")
        for k in self.known:
            if k.get("property") == self.pid and k.get("kind", "known") == "known" and key is not None and k.get("key") == key:
                self.known_hits.append((k, obligation))
                for r in self.rows:  # a listed finding is reported as such, not counted as an obligation
                    if r["name"] == obligation:
                        r["result"] = "known-finding"
                return
        os.makedirs(os.path.join(OUT, "replay"), exist_ok=True)
        path = os.path.join(OUT, "replay", "%s-%s.json" % (self.pid, _san(obligation)))
        doc = {"property": self.pid, "obligation": obligation, "failing_input_found": found is not None}
        doc.update(info)
        if found is not None:
            doc["replay"] = found
        with open(path, "w") as f:
            json.dump(doc, f, indent=1, default=str)
        self.violations.append({"obligation": obligation, "replay": path, "found": found is not None})

    def bounded_standin(self, name, bound, cases, failures, exhaustive=False, note=""):
        self.bounded.append({"name": name, "bound": bound, "cases": cases, "failures": failures, "exhaustive": exhaustive, "note": note, "label": "bounded (not counted as proved)"})

    # ------------------------------------------------------------------ finish
    def finish(self, level="proof", explanation=None, checker_cmd=None):
        wall = time.time() - self.t0
        nob = sum(1 for r in self.rows if r["result"] != "known-finding")
        ndis = sum(1 for r in self.rows if r["result"] == "proved")
        if nob == 0 and not self.undecided:
            self.errors.append("no obligations were generated")
        seen = set()
        for k, ob in self.known_hits:
            if k["key"] in seen:
                continue
            seen.add(k["key"])
            print("KNOWN-FINDING: property=%s %s" % (self.pid, k["what"]))
        for v in self.violations:
            print("VIOLATION property=%s replay=%s%s" % (self.pid, v["replay"], "" if v["found"] else " no-failing-input-found"))
        for n, why in self.undecided:
            print("UNDECIDED property=%s obligation=%s reason=%s" % (self.pid, n, why))
        for e in self.errors:
            print("CHECKER-ERROR property=%s %s" % (self.pid, e))
        cov = {
            "obligations": nob,
            "discharged": ndis,
            "checker_cmd": checker_cmd or ("./check %s --tier %s" % (self.pid, self.tier)),
            "trusted_base": self.trusted,
            "samples": self.samples or [{"note": "no sample"}],
            "functions_under_contract": self.functions,
            "obligation_list": self.rows,
            "solver_seconds": round(self.solver_seconds, 2),
            "proof_hints": dict(self.hints),
            "vacuity": self.vacuity,
            "encoder_crosscheck": self.crosscheck,
            "bounded_standins": self.bounded,
            "known_findings_hit": [k["key"] for k, _ in self.known_hits],
            "undecided": [list(u) for u in self.undecided],
            "notes": self.notes,
        }
        if explanation:
            cov["explanation"] = explanation
        ev = {
            "property_id": self.pid,
            "tier": self.tier,
            "seed": self.seed,
            "level": level,
            "coverage": cov,
            "assumptions": sorted(self.assumptions),
            "wall_s": round(wall, 2),
            "violations": len(self.violations),
        }
        os.makedirs(os.path.join(OUT, "evidence"), exist_ok=True)
        with open(os.path.join(OUT, "evidence", self.pid + ".json"), "w") as f:
            json.dump(ev, f, indent=1, default=str)
        print(
            "%s: %d/%d obligations discharged, %d bounded stand-ins, %d violations, %d undecided, %.1fs"
            % (self.pid, ndis, nob, len(self.bounded), len(self.violations), len(self.undecided), wall)
        )
        if self.errors:
            return 3
        if self.violations:
            return 1
        if self.undecided:
            return 2
        return 0
