"""Lemma layer for the linear count-min sketch (C01, C05, C09, C18): code-independent SMT
obligations stated over the *clauses of the kernel contracts* (skv/contracts/countmin.py).

Ghost state of a sketch: f(k) = total requested multiplicity of key k; S(r,c) = total requested
multiplicity of adds whose key maps to cell (r,c)  (= the sum of f over the keys sharing the cell;
trusted meta-fact, DESIGN 2.7).  Representation invariant I1:
   (L)  cms[r][COL(k,r)] >= min(f(k), MAX32)      for every key k and row r
   (U)  cms[r][c]        <= min(S(r,c), MAX32)    for every cell
"""
import z3
from .lemma import LFrame, clauses
from .contracts import countmin as C
from .contracts.countmin import MAX32, TWO64, COL, zmin, is_min

I = z3.IntSort()


def fn(name, n):
    return z3.Function(name, *([I] * (n + 1)))


class Env:
    def __init__(self):
        self.width, self.depth = z3.Ints("width depth")
        self.base = [self.width > 0, self.depth > 0]

    def frame(self, scalars, arrays, keys=None, res=None, ghosts=None):
        sc = {"width": self.width, "depth": self.depth, "uint_maxval": z3.IntVal(MAX32)}
        sc.update(scalars)
        return LFrame("int", sc, arrays, keys, res, ghosts)

    def typed(self, t):
        """cells of a uint32 table"""
        r, c = z3.Ints("tr tc")
        return z3.ForAll([r, c], z3.And(t(r, c) >= 0, t(r, c) <= MAX32), patterns=[t(r, c)])

    def col(self, kid, r):
        F = self.frame({}, {})
        return COL(F, kid, r)

    def I1_hyps(self, cms, f, S):
        k, r, c = z3.Ints("ik ir ic")
        L = z3.ForAll([k, r], z3.Implies(z3.And(r >= 0, r < self.depth), cms(r, self.col(k, r)) >= zmin(f(k), MAX32)))
        U = z3.ForAll([r, c], z3.Implies(z3.And(r >= 0, r < self.depth, c >= 0, c < self.width), cms(r, c) <= zmin(S(r, c), MAX32)))
        fpos = z3.ForAll([k], f(k) >= 0, patterns=[f(k)])
        spos = z3.ForAll([r, c], S(r, c) >= 0, patterns=[S(r, c)])
        return [L, U, fpos, spos, self.typed(cms)]

    def I1_goal_L(self, cms, f, k, r):
        return z3.Implies(z3.And(r >= 0, r < self.depth), cms(r, self.col(k, r)) >= zmin(f(k), MAX32))

    def I1_goal_U(self, cms, S, r, c):
        return z3.Implies(z3.And(r >= 0, r < self.depth, c >= 0, c < self.width), cms(r, c) <= zmin(S(r, c), MAX32))


def add_frame(E, cms0, cms1, kid, value, m, tag=""):
    n0, n1, b0, b1 = fn("n0" + tag, 1), fn("n1" + tag, 1), fn("b0" + tag, 1), fn("b1" + tag, 1)
    F = E.frame(
        {"value": value},
        {"cms": (cms0, cms1, (E.depth, E.width)), "n_added_records": (n0, n1, (z3.IntVal(2),)), "buckets": (b0, b1, (E.depth,))},
        keys={"key": kid},
        ghosts={"m": m},
    )
    return F, n0, n1


def add_hyps(E, F, strength):
    c = C.AddLinear()
    hy = list(c.ghost_defs(F))
    hy += [f for n, f in clauses(c.ensures(F), prefixes=strength)]
    return hy


def merge_frame(E, a0, a1, b, tag=""):
    na0, na1, nb = fn("na0" + tag, 1), fn("na1" + tag, 1), fn("nb" + tag, 1)
    F = E.frame(
        {},
        {
            "cms": (a0, a1, (E.depth, E.width)),
            "other_cms": (b, None, (E.depth, E.width)),
            "n_added_records": (na0, na1, (z3.IntVal(2),)),
            "other_n_added_records": (nb, None, (z3.IntVal(2),)),
        },
    )
    return F, na0, na1, nb


def query_hyps(E, cms, kid, res):
    b0, b1 = fn("qb0", 1), fn("qb1", 1)
    F = E.frame({}, {"cms": (cms, cms, (E.depth, E.width)), "buckets": (b0, b1, (E.depth,))}, keys={"key": kid}, res=res)
    return [f for n, f in clauses(C.QueryLinear().ensures(F), names=("le-ceiling", "nonneg", "lower", "attained"))]


def lemmas_c01():
    E = Env()
    out = []
    cms0, cms1, f, S = fn("cms0", 2), fn("cms1", 2), fn("f", 1), fn("S", 2)
    kid, V, m, k, r, c = z3.Ints("key V m k r c")
    # --- init
    zero2 = lambda r_, c_: z3.IntVal(0)
    zero1 = lambda k_: z3.IntVal(0)
    out.append(("c01:init-lower", E.base, E.I1_goal_L(zero2, zero1, k, r)))
    out.append(("c01:init-upper", E.base, E.I1_goal_U(zero2, zero2, r, c)))
    # --- add (glue caps the requested multiplicity V >= 0 at 2^32-1 before the kernel call)
    Vc = zmin(V, MAX32)
    F, n0, n1 = add_frame(E, cms0, cms1, kid, Vc, m)
    hy = E.base + [V >= 0] + E.I1_hyps(cms0, f, S) + [E.typed(cms1)] + add_hyps(E, F, ("w-", ""))
    f1 = lambda k_: f(k_) + z3.If(k_ == kid, V, 0)
    S1 = lambda r_, c_: S(r_, c_) + z3.If(c_ == E.col(kid, r_), V, 0)
    out.append(("c01:add-preserves-lower", hy, E.I1_goal_L(cms1, f1, k, r)))
    out.append(("c01:add-preserves-upper", hy, E.I1_goal_U(cms1, S1, r, c)))
    # --- merge
    a0, a1, b, fa, fb, Sa, Sb = fn("a0", 2), fn("a1", 2), fn("b", 2), fn("fa", 1), fn("fb", 1), fn("Sa", 2), fn("Sb", 2)
    Fm, na0, na1, nb = merge_frame(E, a0, a1, b)
    hm = E.base + E.I1_hyps(a0, fa, Sa) + E.I1_hyps(b, fb, Sb) + [E.typed(a1)] + [f_ for n, f_ in clauses(C.MergeLinear().ensures(Fm))]
    out.append(("c01:merge-preserves-lower", hm, E.I1_goal_L(a1, lambda k_: fa(k_) + fb(k_), k, r)))
    out.append(("c01:merge-preserves-upper", hm, E.I1_goal_U(a1, lambda r_, c_: Sa(r_, c_) + Sb(r_, c_), r, c)))
    # --- query: the estimate is between the true count and every row's collision sum
    res = z3.Int("res")
    hq = E.base + E.I1_hyps(cms0, f, S) + query_hyps(E, cms0, kid, res)
    out.append(("c01:estimate>=true", hq, res >= zmin(f(kid), MAX32)))
    out.append(("c01:estimate<=row-sum", hq, z3.Implies(z3.And(r >= 0, r < E.depth), res <= zmin(S(r, E.col(kid, r)), MAX32))))
    out.append(("c01:exact-if-collision-free-row", hq + [r >= 0, r < E.depth, S(r, E.col(kid, r)) == f(kid)], res == zmin(f(kid), MAX32)))
    return out, hy, hm


def lemmas_c05():
    """exact clauses of _add_linear -> the per-step statements of C05 (linear part)"""
    E = Env()
    out = []
    cms0, cms1 = fn("cms0", 2), fn("cms1", 2)
    kid, v, m, m1, k2, q2, q2n, r, c1, c2 = z3.Ints("key v m m1 k2 q2 q2n r c1 c2")
    F, n0, n1 = add_frame(E, cms0, cms1, kid, v, m)
    hy = E.base + [v >= 0, v <= MAX32, E.typed(cms0), E.typed(cms1)] + add_hyps(E, F, ("x-", ""))
    new_est = is_min(F, m1, cms1, kid, z3.IntVal(MAX32))
    out.append(("c05:key-estimate-is-min(old+v,ceiling)", hy + new_est, m1 == zmin(m + v, MAX32)))
    old2 = is_min(F, q2, cms0, k2, z3.IntVal(MAX32))
    new2 = is_min(F, q2n, cms1, k2, z3.IntVal(MAX32))
    out.append(("c05:no-other-estimate-decreases", hy + old2 + new2, q2n >= q2))
    out.append(("c05:other-estimate<=max(own-old,key-new)", hy + old2 + new2 + new_est, q2n <= z3.If(q2 >= m1, q2, m1)))
    rng = [r >= 0, r < E.depth, c1 >= 0, c1 < E.width, c2 >= 0, c2 < E.width]
    out.append(("c05:at-most-one-counter-per-row-changes", hy + rng + [cms1(r, c1) != cms0(r, c1), cms1(r, c2) != cms0(r, c2)], c1 == c2))
    out.append(("c05:n_added-grows-by-v-unless-cut-short", hy + [m + v <= MAX32, n0(0) >= 0, n0(0) < TWO64], n1(0) == C.wrap64(n0(0) + v)))
    out.append(("c05:n_records-unchanged", hy, n1(1) == n0(1)))
    return out, hy


def lemmas_c18():
    E = Env()
    out = []
    cms0, cms1 = fn("cms0", 2), fn("cms1", 2)
    kid, v, m, m1, k2, q2, q2n, r, c = z3.Ints("key v m m1 k2 q2 q2n r c")
    F, n0, n1 = add_frame(E, cms0, cms1, kid, v, m)
    hy = E.base + [v >= 0, v <= MAX32, E.typed(cms0), E.typed(cms1)] + add_hyps(E, F, ("w-", ""))
    rng = [r >= 0, r < E.depth, c >= 0, c < E.width]
    # any key k2 whose estimate is at the ceiling keeps it under an add of any key
    old2 = is_min(F, q2, cms0, k2, z3.IntVal(MAX32))
    new2 = is_min(F, q2n, cms1, k2, z3.IntVal(MAX32))
    out.append(("c18:add-keeps-ceiling", hy + old2 + new2 + [q2 == MAX32], q2n == MAX32))
    out.append(("c18:add-never-lowers-a-counter", hy + rng, cms1(r, c) >= cms0(r, c)))
    out.append(("c18:add-never-lowers-an-estimate", hy + old2 + new2, q2n >= q2))
    out.append(("c18:add-stays-within-ceiling", hy + rng, cms1(r, c) <= MAX32))
    out.append(("c18:added-key-reaches-min(old+v,ceiling)", hy + is_min(F, m1, cms1, kid, z3.IntVal(MAX32)), m1 >= zmin(m + v, MAX32)))
    a0, a1, b = fn("a0", 2), fn("a1", 2), fn("b", 2)
    Fm, na0, na1, nb = merge_frame(E, a0, a1, b)
    hm = E.base + [E.typed(a0), E.typed(a1), E.typed(b)] + [f_ for n, f_ in clauses(C.MergeLinear().ensures(Fm))]
    qa = is_min(Fm, q2, a0, k2, z3.IntVal(MAX32))
    qb = is_min(Fm, m, b, k2, z3.IntVal(MAX32))
    qn = is_min(Fm, q2n, a1, k2, z3.IntVal(MAX32))
    out.append(("c18:merge-keeps-ceiling", hm + qa + qn + [q2 == MAX32], q2n == MAX32))
    out.append(("c18:merge-keeps-ceiling-of-other", hm + qb + qn + [m == MAX32], q2n == MAX32))
    out.append(("c18:merge-never-lowers-a-counter", hm + rng, z3.And(a1(r, c) >= a0(r, c), a1(r, c) >= b(r, c), a1(r, c) <= MAX32)))
    return out, hy, hm


def lemmas_c09():
    """linear part of C09, from the exact clause of _merge_linear"""
    E = Env()
    out = []
    a0, a1, b, b1 = fn("a0", 2), fn("a1", 2), fn("b", 2), fn("b1", 2)
    r, c, k, qa, qb, qm = z3.Ints("r c k qa qb qm")
    Fm, na0, na1, nb = merge_frame(E, a0, a1, b)
    hm = E.base + [E.typed(a0), E.typed(a1), E.typed(b)] + [f_ for n, f_ in clauses(C.MergeLinear().ensures(Fm))]
    rng = [r >= 0, r < E.depth, c >= 0, c < E.width]
    out.append(("c09:cell-is-min(a+b,ceiling)", hm + rng, a1(r, c) == zmin(a0(r, c) + b(r, c), MAX32)))
    # commutativity: merging b into a and a into b give the same table
    Fm2, nb0, nb1, na = merge_frame(E, b, b1, a0, "x")
    hm2 = [E.typed(b1)] + [f_ for n, f_ in clauses(C.MergeLinear().ensures(Fm2))]
    out.append(("c09:merge-commutative", hm + hm2 + rng, a1(r, c) == b1(r, c)))
    out.append(("c09:empty-is-identity", hm + rng + [z3.ForAll([r, c], b(r, c) == 0)], a1(r, c) == a0(r, c)))
    out.append(("c09:merged>=each-input", hm + rng, z3.And(a1(r, c) >= a0(r, c), a1(r, c) >= b(r, c))))
    out.append(("c09:n_added-is-sum", hm + [na0(0) >= 0, nb(0) >= 0, na0(0) + nb(0) < TWO64], na1(0) == na0(0) + nb(0)))
    out.append(("c09:n_records-is-sum", hm + [na0(1) >= 0, nb(1) >= 0, na0(1) + nb(1) < TWO64], na1(1) == na0(1) + nb(1)))
    ea = is_min(Fm, qa, a0, k, z3.IntVal(MAX32))
    eb = is_min(Fm, qb, b, k, z3.IntVal(MAX32))
    em = is_min(Fm, qm, a1, k, z3.IntVal(MAX32))
    out.append(("c09:merged-estimate>=min(sum-of-estimates,ceiling)", hm + ea + eb + em, qm >= zmin(qa + qb, MAX32)))
    return out, hm


def lemmas_c12_linear():
    """add(key, v) equals v single adds (linear count-min): closed form F_j of the state after j
    unit adds, proved inductive (unit step) and equal to the bulk add at j = v.
       M_j = min(m + j, MAX32);  F_j(r,c) = M_j if c is the key's counter in row r and cms0(r,c) < M_j
       else cms0(r,c);  n_added_j = n_added_0 + min(j, MAX32 - m)."""
    E = Env()
    out = []
    cms0, ca, cb = fn("cms0", 2), fn("cms_a", 2), fn("cms_b", 2)
    kid, j, m, ma, v, r, c = z3.Ints("key j m ma v r c")
    n0 = fn("nn0", 1)
    M = lambda jj: zmin(m + jj, MAX32)
    Fj = lambda jj: (lambda r_, c_: z3.If(z3.And(c_ == E.col(kid, r_), cms0(r_, c_) < M(jj)), M(jj), cms0(r_, c_)))
    Nj = lambda jj: n0(0) + zmin(jj, MAX32 - m)
    F0, _, _ = add_frame(E, cms0, cms0, kid, z3.IntVal(0), m)
    min0 = is_min(F0, m, cms0, kid, z3.IntVal(MAX32))
    rng = [r >= 0, r < E.depth, c >= 0, c < E.width]
    base = E.base + [E.typed(cms0), n0(0) >= 0, n0(0) + MAX32 < TWO64] + min0
    qr, qc = z3.Ints("qr qc")
    inrange = z3.And(qr >= 0, qr < E.depth, qc >= 0, qc < E.width)
    # unit step: state a == F_j, one unit add a -> b, then b == F_{j+1}
    Fa, na0, na1 = add_frame(E, ca, cb, kid, z3.IntVal(1), ma, "u")
    is_Fj = z3.ForAll([qr, qc], z3.Implies(inrange, ca(qr, qc) == Fj(j)(qr, qc)))
    hy = base + [j >= 0, E.typed(ca), E.typed(cb), is_Fj, na0(0) == Nj(j)] + add_hyps(E, Fa, ("x-", ""))
    out.append(("c12:linear:unit-add-advances-the-closed-form (cells)", hy + rng, cb(r, c) == Fj(j + 1)(r, c)))
    out.append(("c12:linear:unit-add-advances-the-closed-form (n_added)", hy, na1(0) == Nj(j + 1)))
    # bulk add with multiplicity v equals the closed form at j = v
    c1 = fn("cms1", 2)
    Fb, nb0, nb1 = add_frame(E, cms0, c1, kid, v, m, "b")
    hb = base + [v >= 0, v <= MAX32, E.typed(c1), nb0(0) == n0(0)] + [f for n, f in clauses(C.AddLinear().ensures(Fb), prefixes=("x-", ""))]
    out.append(("c12:linear:bulk-add-is-the-closed-form-at-v (cells)", hb + rng, c1(r, c) == Fj(v)(r, c)))
    out.append(("c12:linear:bulk-add-is-the-closed-form-at-v (n_added)", hb, nb1(0) == Nj(v)))
    out.append(("c12:linear:closed-form-at-0-is-the-start-state", base + rng, Fj(z3.IntVal(0))(r, c) == cms0(r, c)))
    return out
