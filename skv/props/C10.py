"""C10 - save/load reproduces the sketch exactly, for every sketch type."""
import json
import os
import random
import tempfile

import numpy as np
import z3

from .. import glue, pyexec as X
from ..pyexec import Sym, Const, Ref, Arr
from . import _glue, _wrappers

PARAMS = {
    "CountMinLinear": ["width", "depth", "uint_maxval"],
    "CountMinLog16": ["width", "depth", "uint_maxval", "max_count", "num_reserved", "base"],
    "CountMinLog8": ["width", "depth", "uint_maxval", "max_count", "num_reserved", "base"],
    "HyperLogLog": ["p", "seed", "m", "alpha", "threshold"],
    "HeavyHitters": ["width", "depth", "max_key_len", "phi", "uint_maxval"],
}
TABLES = {
    "CountMinLinear": {"cms": "cms", "n_added_records": "n_added_records"},
    "CountMinLog16": {"cms": "cms", "n_added_records": "n_added_records"},
    "CountMinLog8": {"cms": "cms", "n_added_records": "n_added_records"},
    "HyperLogLog": {"registers": "hll"},
    "HeavyHitters": {"lhh": "lhh", "lhh_count": "lhh_count", "key_lens": "key_lens", "n_added_records": "n_added_records"},
}
MOD = {"HyperLogLog": "hyperloglog", "HeavyHitters": "heavyhitters"}


def base_equal(a, b):
    """two `base` values are equal when they come from _find_base on provably equal arguments"""
    oa, ob = getattr(a, "origin", None), getattr(b, "origin", None)
    return oa is not None and ob is not None and oa[0] == ob[0] == "find_base", oa, ob


def check_class(chk, ex, cls, found):
    if ("saveload", cls) in chk.done:
        return
    chk.done.add(("saveload", cls))
    name = cls + ".save/load"
    for phi_none in ((True, False) if cls == "HeavyHitters" else (True,)):
        a, objs, _ = _glue.good_objects(ex, cls, "s", phi_none=phi_none)
        if not objs:
            chk.errors.append("no constructed object for %s" % cls)
            continue
        sref, st0 = objs[0]
        fn = Sym(z3.Int("filename"), "str")
        outs = _glue.call_method(ex, st0.fork(), sref, "save", [fn])
        saves = [(o, e) for o, e in outs if o.kind == "return"]
        _wrappers.row(chk, name + ":save-does-not-raise", len(saves) == len(outs) and saves, None, found)
        for si, (o, eff) in enumerate(saves):
          sv = [e for e in eff if e[0] == "savez"]
          _wrappers.row(chk, name + ":one-savez", len(sv) == 1, None, found)
          if len(sv) != 1:
            continue
          members = sv[0][2]
          ex.npz_members = members
          for shared in (False, True):
            tag = "%s[%s%sshared=%s]" % (name, "" if len(saves) == 1 else "save path %d," % si, "" if phi_none else "phi given,", shared)
            st = o.state.fork()
            louts = _glue.call_method(ex, st, sref, "load", [fn, Const(shared)])
            rets = [(lo, le) for lo, le in louts if lo.kind == "return"]
            raises = [(lo, le) for lo, le in louts if lo.kind == "raise"]
            # the constructor's precondition holds at the call in load(): no feasible raising path
            ok = not raises
            _wrappers.row(chk, tag + ":load-of-own-file-never-raises", ok, ["raises %s under %s" % (getattr(_glue.exc_type(lo.state, lo.value), "__name__", "?"), [str(f) for f in lo.state.pc[-3:]]) for lo, le in raises], found)
            for lo, le in rets:
                new = lo.value
                okc = isinstance(new, Ref) and lo.state.objs[new.oid]["cls"].name == cls
                _wrappers.row(chk, tag + ":same-class", okc, None, found)
                if not okc:
                    continue
                of, nf = lo.state.objs[sref.oid]["fields"], lo.state.objs[new.oid]["fields"]
                for pn in PARAMS[cls]:
                    x, y = of.get(pn), nf.get(pn)
                    if x is None or y is None:
                        _wrappers.row(chk, "%s:param:%s" % (tag, pn), False, "missing attribute", found)
                        continue
                    tx, ty = _glue.ex_num(x), _glue.ex_num(y)
                    if tx.sort() != ty.sort():
                        tx = z3.ToReal(tx) if z3.is_int(tx) else tx
                        ty = z3.ToReal(ty) if z3.is_int(ty) else ty
                    chk.prove("%s:param:%s" % (tag, pn), lo.state.pc, tx == ty, tag="G", found=found)
                # every table is copied from the member save wrote it to
                copies = [(e[1], e[2]) for e in le if e[0] == "copyto"]
                for fld, mem in TABLES[cls].items():
                    okt = any(dst is nf.get(fld) and src is members.get(mem) for dst, src in copies)
                    _wrappers.row(chk, "%s:table:%s<-npz[%s]" % (tag, fld, mem), okt, "table %s is not restored from member %s" % (fld, mem), found)
                    # the member save() wrote holds the table's values (no lossy conversion on the way to
                    # the file), np.copyto into the new table cannot lose them, shapes agree
                    dst, src, orig = nf.get(fld), members.get(mem), of.get(fld)
                    if isinstance(dst, Arr) and isinstance(src, Arr) and isinstance(orig, Arr):
                        _wrappers.row(chk, "%s:table:%s:rank" % (tag, fld), len(dst.shape) == len(src.shape) == len(orig.shape), None, found)
                        for i, (u, v) in enumerate(zip(dst.shape, src.shape)):
                            chk.prove("%s:table:%s:shape%d" % (tag, fld, i), lo.state.pc, u == v, tag="G", found=found)
                        if src is not orig:
                            idx = [z3.Int("si%d" % i) for i in range(len(orig.shape))]
                            rng = [z3.And(i >= 0, i < n) for i, n in zip(idx, orig.shape)]
                            chk.prove("%s:table:%s:saved-values==table-values" % (tag, fld), lo.state.pc + rng + [z3.And(orig.content(idx) >= 0, orig.content(idx) < 2 ** (8 * orig.itemsize()))], src.content(idx) == orig.content(idx), tag="G", found=found)
                        okw = src.dtype == dst.dtype or (src.dtype in X.DT and dst.dtype in X.DT and not X.DT[src.dtype][1] and not X.DT[dst.dtype][1] and X.DT[src.dtype][0] <= X.DT[dst.dtype][0])
                        _wrappers.row(chk, "%s:table:%s:copy-into-the-new-table-is-lossless" % (tag, fld), okw, "%s -> %s" % (src.dtype, dst.dtype), found)
                if cls == "HeavyHitters":
                    okg = any(e[0] == "call" and e[1].endswith("generate_candidate_set") for e in le)
                    _wrappers.row(chk, tag + ":candidate-cache-regenerated", okg, None, found)
                if shared:
                    _wrappers.row(chk, tag + ":owns-shared-block", "shm" in nf, None, found)
        ex.npz_members = None
    return


def dispatch(chk, ex, found):
    """module-level load() goes to the class that wrote the file; class loaders reject other types"""
    cms = ["CountMinLinear", "CountMinLog16", "CountMinLog8"]
    saved = {}
    for cls in cms:
        a, objs, _ = _glue.good_objects(ex, cls, "d")
        sref, st0 = objs[0]
        fn = Sym(z3.Int("filename"), "str")
        outs = [(o, e) for o, e in _glue.call_method(ex, st0.fork(), sref, "save", [fn]) if o.kind == "return"]
        saved[cls] = (sref, outs[0][0].state, [e for e in outs[0][1] if e[0] == "savez"][0][2])
    modload = ex.func("countmin", "load")
    for cls in cms:
        sref, st, members = saved[cls]
        ex.npz_members = members
        outs = ex.call_function(modload, [Sym(z3.Int("filename"), "str"), Const(False)], {}, st.fork())
        ok = len(outs) >= 1 and all(o.kind == "return" and isinstance(o.value, Ref) and o.state.objs[o.value.oid]["cls"].name == cls for o in outs)
        _wrappers.row(chk, "countmin.load:dispatches-%s-file-to-%s" % (cls, cls), ok, [o.kind for o in outs], found)
        for other in cms:
            if other == cls:
                continue
            oc = ex.cls("countmin", other)
            louts = ex.call_function(oc.lookup("load")[0], [Sym(z3.Int("filename"), "str"), Const(False)], {}, st.fork())
            ok = len(louts) >= 1 and all(o.kind == "raise" and _glue.exc_type(o.state, o.value) is TypeError for o in louts)
            _wrappers.row(chk, "%s.load:rejects-%s-file" % (other, cls), ok, [o.kind for o in louts], found)
    ex.npz_members = None


# ------------------------------------------------------------------ bounded oracle on the real classes
def cfgs(rng):
    return {
        "CountMinLinear": [dict(width=1, depth=1), dict(width=7, depth=3)],
        "CountMinLog16": [dict(width=3, depth=2, max_count=2**40, num_reserved=5), dict(width=1, depth=1)],
        "CountMinLog8": [dict(width=5, depth=2, max_count=10**6, num_reserved=100), dict(width=2, depth=1)],
        "HyperLogLog": [dict(p=7, seed=2**63 + 12345), dict(p=9, seed=0), dict(p=8, seed=2**64 - 1)],
        "HeavyHitters": [dict(width=1, depth=1, max_key_len=3), dict(width=25, depth=2, max_key_len=8), dict(width=3, depth=2, max_key_len=4, phi=0.3)],
    }


def attrs(s):
    out = {}
    for n in ("width", "depth", "max_count", "num_reserved", "base", "p", "seed", "phi", "max_key_len", "m", "alpha", "threshold"):
        if hasattr(s, n):
            v = getattr(s, n)
            out[n] = float(v) if isinstance(v, (float, np.floating)) else int(v)
    return out


def oracle(chk, n=1, classes=None):
    from . import _oracle

    rng = random.Random(chk.seed + 505)
    tmp = tempfile.mkdtemp(prefix="skv")
    keys = _oracle.KEYS
    try:
        for cls, lst in cfgs(rng).items():
            if classes is not None and cls not in classes:
                continue
            mod = chk.module(MOD.get(cls, "countmin"))
            C = getattr(mod, cls)
            for cfg in lst:
                for shared in (False, True):
                    s = C(**cfg)
                    for _ in range(rng.randrange(0, 12)):
                        s.add(rng.choice(keys), rng.choice([1, 2, 30]))
                    if hasattr(s, "cms"):  # boundary counter values (documented attribute, set directly)
                        top = int(np.iinfo(s.cms.dtype).max)
                        vals = [v for v in (255, 256, 65535, 65536, 2**31, 2**32 - 1) if v <= top]
                        flat = s.cms.reshape(-1)
                        flat[0] = rng.choice(vals)
                    fn = os.path.join(tmp, "x.npz")
                    s.save(fn)
                    what = "%s(%s) save -> load(shared_memory=%s)" % (cls, cfg, shared)
                    try:
                        t = (mod.load if cls.startswith("CountMin") else C.load)(fn, shared)
                    except Exception as e:
                        return {"key": what, "observed": "load raised %s: %s" % (type(e).__name__, e), "how": "bounded oracle on the real classes"}
                    bad = None
                    if type(t) is not type(s):
                        bad = "class %s" % type(t).__name__
                    elif attrs(s) != attrs(t):
                        bad = "parameters differ: %s vs %s" % (attrs(s), attrs(t))
                    elif not _oracle.same_state({k: v for k, v in _oracle.state_of(s).items() if k != "rand_ptr"}, {k: v for k, v in _oracle.state_of(t).items() if k != "rand_ptr"}):
                        bad = "tables / counters differ"
                    else:
                        try:
                            c = C(**cfg)
                            c.merge(t)
                            s2 = C.load(fn)
                            s2.merge(s)
                        except Exception as e:
                            bad = "merge with the original raised %s" % type(e).__name__
                    if not bad and cls == "HeavyHitters":
                        if s.query(100) != t.query(100) or any(int(s[k[: cfg["max_key_len"]]]) != int(t[k[: cfg["max_key_len"]]]) for k in keys):
                            bad = "queries differ"
                    if not bad and hasattr(s, "rand_nums"):
                        d = np.random.default_rng(1).random(2048)
                        for x in (s, t):
                            x.rand_nums[:] = d
                            x.rand_ptr = 0
                    if not bad:
                        for k in keys[:6]:
                            s.add(k, 3)
                            t.add(k, 3)
                        if not _oracle.same_state(_oracle.state_of(s), _oracle.state_of(t)):
                            bad = "sketches evolve differently after load"
                    del t
                    if bad:
                        return {"key": what, "observed": bad, "how": "bounded oracle on the real classes"}
                    if cls.startswith("CountMin") and not shared:
                        # the class-specific loaders reject files of another counter type
                        for other in ("CountMinLinear", "CountMinLog16", "CountMinLog8"):
                            if other == cls or (classes is not None and other not in classes):
                                continue
                            try:
                                getattr(mod, other).load(fn)
                                got = "returned a sketch"
                            except TypeError:
                                continue
                            except Exception as e:
                                got = "raised %s" % type(e).__name__
                            return {"key": "%s.load(file saved by %s(%s))" % (other, cls, cfg), "observed": got, "expected": "TypeError", "how": "bounded oracle on the real classes"}
    finally:
        for f in os.listdir(tmp):
            os.unlink(os.path.join(tmp, f))
        os.rmdir(tmp)
    return None


def part(chk, classes):
    """the save/load obligations of the given classes, for properties quantified over histories that
    include a save/load step (C01): the loaded sketch has the same parameters and tables"""
    ex = glue.make_exec(chk, {("call", "HeavyHitters.generate_candidate_set"): glue._stub_gcs})
    cache = {}

    def found():
        if "r" not in cache:
            cache["r"] = oracle(chk, classes=classes)
        return cache["r"]

    for cls in classes:
        try:
            check_class(chk, ex, cls, found)
        except X.Unsupported as e:
            chk.undecided.append((cls + ".save/load", "unsupported construct in glue: %s" % e))
    chk.assumptions.add("np.savez / np.load round trip: a member read by name equals the array written under that name, with its dtype")


def run(chk):
    ex = glue.make_exec(chk, {("call", "HeavyHitters.generate_candidate_set"): glue._stub_gcs})
    cache = {}

    def found():
        if "r" not in cache:
            cache["r"] = oracle(chk)
        return cache["r"]

    chk.default_found = found

    for cls in PARAMS:
        try:
            check_class(chk, ex, cls, found)
        except X.Unsupported as e:
            chk.undecided.append((cls + ".save/load", "unsupported construct in glue: %s" % e))
    try:
        dispatch(chk, ex, found)
    except X.Unsupported as e:
        chk.undecided.append(("countmin.load", "unsupported construct in glue: %s" % e))
    # 'every query equal to the original's': for heavy hitters query() goes through a cache whose
    # bookkeeping is not saved - its rows (C13) make the answer a function of the tables alone
    from . import C13

    C13.query_part(chk, found)
    bad = found()
    if bad:
        chk.violation("save-load:bounded:oracle", {"verdict": "bounded oracle failed"}, bad)
    chk.bounded_standin("real classes: save -> load (shared_memory False/True): class, public parameters, tables, counters, queries, merge with the original, identical evolution", "5 classes x 2-3 configurations (width/depth 1, seeds >= 2^63, non-default max_count/num_reserved/phi)", 24, int(bool(bad)))
    chk.assumptions.update(glue.ASSUMED)
    chk.assumptions.add("np.savez / np.load round trip: a member read by name equals the array written under that name, with its dtype")
    chk.assumptions.add("float64 round trip of heavy-hitter width/depth/max_key_len is exact (values < 2^53); float64 treated as real")
    chk.assumptions.add("_find_base is a function of its arguments (jitted, no state): equal arguments give the equal base")
    chk.trusted.append("front end B (skv/pyexec.py): symbolic execution of the Python subset, re-parsed from the tree under test every run")
    chk.notes.append("For each class the real save() and load() are executed symbolically on an object produced by the real constructor: load reads members that save wrote, never raises on its own file (the constructor's precondition holds for every state the constructor can produce), returns the same class with provably equal parameters, restores every table and the bookkeeping counters from the right member, and the module-level load dispatches by the stored dtype. Equal parameters and tables give equal results of every query and identical evolution because the kernels are functions of (tables, parameters, draws) - their contracts (C01..C06).")


def replay(path):
    doc = json.load(open(path))
    print(json.dumps(doc.get("replay") or doc.get("detail"), indent=1)[:2000])
    return 1
