"""C11 - fasthash64/fasthash32/murmur3 equal the published algorithms on all inputs.

Proof: every hash kernel of sketchnu/hashes.py is verified (bit-vector mode, all lengths through a
loop invariant over the ghost fold) against the reference algorithms in skv/spec/hashes.py.
"""
import json
import random

import z3
from numba.core import ir as nir

from ..extract import typed_ir
from ..spec import hashes as SP
from ..spec.vectors import FASTHASH32_VECTORS, MURMUR3_VECTORS
from ..crosscheck import crosscheck
from ..ctx import small_model

KERNELS = [
    "hashes._xor_shiftl",
    "hashes._fhmix64",
    "hashes.fasthash64",
    "hashes.fasthash32",
    "hashes._xor32",
    "hashes._shift32r",
    "hashes._shift32l",
    "hashes._rotl32",
    "hashes._fmix32",
    "hashes.murmur3",
]
PUBLIC = {"fasthash64": (SP.fasthash64_py, 64), "fasthash32": (SP.fasthash32_py, 64), "murmur3": (SP.murmur3_py, 32)}


def corner_inputs(rng, n, seed_bits):
    seeds = [0, 1, 29, (1 << 32) - 1, 1 << 32, 1 << 63, (1 << 64) - 1]
    seeds = [s & ((1 << seed_bits) - 1) for s in seeds]
    out = []
    for i in range(n):
        ln = rng.choice([0, 1, 2, 3, 4, 5, 6, 7, 8, 9, 15, 16, 17, 23, 24, 31, 32, 33, 63, 64, 65]) if i % 3 else rng.randrange(0, 258)
        mode = rng.randrange(4)
        if mode == 0:
            data = bytes(rng.choice([0, 0x7F, 0x80, 0xFF]) for _ in range(ln))
        elif mode == 1:
            data = bytes(rng.randrange(256) for _ in range(ln))
        elif mode == 2:
            data = bytes(ln)  # all NUL (aligned zero blocks)
        else:
            data = bytes(rng.randrange(256) if rng.random() < 0.5 else 0 for _ in range(ln))
        seed = rng.choice(seeds) if rng.random() < 0.6 else rng.getrandbits(seed_bits)
        out.append((data, seed))
    return out


def model_input(model, seed_bits):
    """(bytes, seed) described by a z3 model of a hash-kernel VC"""
    BV64, BV8 = z3.BitVecSort(64), z3.BitVecSort(8)
    ln = model.eval(z3.BitVec("len_key", 64), model_completion=True).as_long()
    if ln > 4096:
        return None
    kb = z3.Function("key_b", BV64, BV8)
    data = bytes(model.eval(kb(z3.BitVecVal(j, 64)), model_completion=True).as_long() for j in range(ln))
    seed = model.eval(z3.BitVec("seed", seed_bits), model_completion=True).as_long()
    return data, seed


def make_replayer(fname):
    spec, seed_bits = PUBLIC[fname]

    def replayer(chk, bad, tir, contract):
        disp = getattr(chk.module("hashes"), fname)
        cands = []
        for o in bad[:4]:
            if o.result != "refuted":
                continue
            m = small_model(o, [z3.ULT(z3.BitVec("len_key", 64), z3.BitVecVal(48, 64))]) or o.model
            mi = model_input(m, seed_bits) if m is not None else None
            if mi is not None:
                cands.append(("solver-model", mi))
        rng = random.Random(chk.seed)
        cands += [("search", c) for c in corner_inputs(rng, 3000, seed_bits)]
        for how, (data, seed) in cands:
            try:
                got = int(disp(data, seed))
            except Exception as e:
                got = "raised %s" % type(e).__name__
            want = spec(data, seed)
            if got != want:
                return {"key": "%s(%r,%d)" % (fname, data, seed), "function": "sketchnu.hashes." + fname, "args": [data.hex(), seed], "expected": want, "observed": got, "how": how}
        return None

    return replayer


def purity(chk, qualname):
    """no store, no global state: the result is a function of the arguments only"""
    mod, fn = qualname.split(".")
    tir = typed_ir(getattr(chk.module(mod), fn))
    stores = 0
    for blk in tir.blocks.values():
        for st in blk.body:
            if isinstance(st, (nir.SetItem, nir.StaticSetItem, nir.SetAttr)):
                stores += 1
    ok = stores == 0
    chk.rows.append({"name": qualname + ":pure:no-store", "kind": "K", "backend": "ir-scan", "result": "proved" if ok else "refuted", "instances": 1, "seconds": 0.0, "units": 0})
    if not ok:
        chk.violation(qualname + ":pure:no-store", {"verdict": "refuted", "detail": "%d store statements in a hash kernel" % stores}, None)


def run(chk):
    # 0. the executable spec is the published algorithm: reference vectors (repository tests + MurmurHash3 classics)
    bad = [v for v in FASTHASH32_VECTORS if SP.fasthash32_py(v[0], v[1]) != v[2]] + [v for v in MURMUR3_VECTORS if SP.murmur3_py(v[0], v[1]) != v[2]]
    chk.vacuity.append({"spec-vectors": len(FASTHASH32_VECTORS) + len(MURMUR3_VECTORS), "ok": not bad})
    if bad:
        chk.errors.append("executable spec disagrees with reference vectors: %r" % bad[:2])
        return
    hashes = chk.module("hashes")
    # 1. contracts on the real kernels
    for q in KERNELS:
        fn = q.split(".")[1]
        chk.kernel(q, replayer=make_replayer(fn) if fn in PUBLIC else None)
        purity(chk, q)
    # 1b. the public functions accept the documented seed range: the declared parameter type of
    # `seed` is the full unsigned width of the algorithm (a narrower type in the decorator makes the
    # dispatcher reduce the seed silently before the - otherwise correct - body sees it)
    for fname, (spec, sb) in PUBLIC.items():
        tir = typed_ir(getattr(hashes, fname))
        ty = dict(zip(tir.arg_names, tir.sig)).get("seed")
        ok = ty is not None and getattr(ty, "bitwidth", None) == sb and not getattr(ty, "signed", True)
        fnd = None
        if not ok:
            def fnd(fname=fname, spec=spec, sb=sb):
                f = getattr(hashes, fname)
                for seed in ((1 << sb) - 1, 1 << (sb - 1), 1 << 32, (1 << 32) + 5, 1 << 16):
                    if seed >= (1 << sb):
                        continue
                    for key in (b"", b"abc", b"0123456789abcdef"):
                        try:
                            got = int(f(key, seed))
                        except Exception as e:
                            got = "raised %s" % type(e).__name__
                        if got != spec(key, seed):
                            return {"key": "%s(%r, %d)" % (fname, key, seed), "function": "sketchnu.hashes." + fname, "args": {"key": key.hex(), "seed": seed}, "expected": spec(key, seed), "observed": got, "how": "seed outside the narrowed parameter type"}
                return None
        chk.rows.append({"name": "hashes.%s:signature:seed-is-uint%d" % (fname, sb), "kind": "K", "backend": "typed-ir", "result": "proved" if ok else "refuted", "instances": 1, "seconds": 0.0, "units": 0})
        if not ok:
            chk.violation("hashes.%s:signature:seed-is-uint%d" % (fname, sb), {"verdict": "refuted", "detail": "declared type of seed: %s" % ty}, fnd())
    # 2. canary: a deliberately wrong spec constant must be refuted (guards against vacuous VCs)
    from ..contract import REGISTRY
    from ..engine import Engine
    from .. import solve

    class Wrong(type(REGISTRY["hashes._fhmix64"])):
        def ensures(self, F):
            yield "spec", F.res == SP.fh_mix(SP.Z3Alg(64), F.h) + 1

    obs = Engine(typed_ir(hashes._fhmix64), Wrong(), REGISTRY).run()
    solve.discharge_all(obs)
    ok = any(o.clause == "spec" and o.result == "refuted" for o in obs)
    chk.vacuity.append({"canary": "hashes._fhmix64:post:spec+1", "ok": ok})
    if not ok:
        chk.errors.append("canary not refuted")
    # 3. encoder cross-check: engine-as-interpreter vs the real jitted functions
    rng = random.Random(chk.seed + 1)
    n = 40 if chk.tier == "quick" else 400
    for fname, (spec, sb) in PUBLIC.items():
        cases = [c for c in corner_inputs(rng, n, sb) if len(c[0]) <= 40]
        crosscheck(chk, getattr(hashes, fname), cases, fname)
    crosscheck(chk, hashes._fhmix64, [(rng.getrandbits(64),) for _ in range(20)], "_fhmix64")
    crosscheck(chk, hashes._rotl32, [(rng.getrandbits(32), rng.randrange(1, 32)) for _ in range(20)], "_rotl32")
    # 4. bounded stand-in (run-time evaluation of the public contracts on the real code)
    n = 4000 if chk.tier == "quick" else 200000
    fails = 0
    for fname, (spec, sb) in PUBLIC.items():
        disp = getattr(hashes, fname)
        for data, seed in corner_inputs(rng, n, sb):
            if int(disp(data, seed)) != spec(data, seed):
                fails += 1
                chk.violation("hashes.%s:runtime:spec" % fname, {"verdict": "runtime contract check failed"}, {"key": "%s(%r,%d)" % (fname, data, seed), "function": "sketchnu.hashes." + fname, "args": [data.hex(), seed], "expected": spec(data, seed), "observed": int(disp(data, seed)), "how": "runtime-contract"})
                break
    chk.bounded_standin("public hash functions vs executable spec on random+corner inputs", "lengths 0..257, %d inputs per function" % n, 3 * n, fails)
    chk.trusted.append("skv/spec/hashes.py: transcription of smhasher fasthash.cpp / MurmurHash3_x86_32 (validated on %d reference vectors)" % (len(FASTHASH32_VECTORS) + len(MURMUR3_VECTORS)))
    chk.assumptions.add("little-endian host")
    chk.assumptions.add("murmur3: len(key) < 2^31 (reference takes an int length)")


def replay(path):
    import importlib, sys

    doc = json.load(open(path))
    r = doc.get("replay")
    if not r:
        print("replay file names obligation %s; no failing input recorded" % doc["obligation"])
        print(json.dumps(doc.get("solver"), indent=1))
        return 1
    hashes = importlib.import_module("sketchnu.hashes")
    fname = r["function"].split(".")[-1]
    got = int(getattr(hashes, fname)(bytes.fromhex(r["args"][0]), r["args"][1]))
    want = PUBLIC[fname][0](bytes.fromhex(r["args"][0]), r["args"][1])
    print("%s(%s, %d) = %d ; reference = %d" % (fname, r["args"][0], r["args"][1], got, want))
    return 0 if got == want else 1
