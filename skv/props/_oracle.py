"""Bounded oracles on the *real classes* (public API only).  They serve two purposes:
  * replay search: when a glue obligation fails, find a concrete history that violates the
    property's observable statement on the real code;
  * bounded stand-in for clauses the contracts do not reach.
Always labelled bounded; never counted as proved."""
import os
import random
import tempfile
from collections import Counter

import numpy as np

MAX32 = 2**32 - 1
KEYS = [b"", b"a", b"a\x00", b"\x00", b"\x00\x00", b"ab", b"ab\x00", b"abc", b"\xff\x80", b"abcd", b"abcdefgh", b"abcdefghi"]


def _cm(chk):
    return chk.module("countmin")


def cols(sk, key):
    """which counter each row gives to `key`, read off an empty probe sketch of the same shape"""
    probe = type(sk)(int(sk.width), int(sk.depth)) if type(sk).__name__ == "CountMinLinear" else None
    probe.add(key)
    return [int(np.nonzero(probe.cms[r])[0][0]) for r in range(int(sk.depth))]


def c01_history(chk, n, seed=0):
    """true <= estimate <= collision bound on random histories of linear sketches (adds with huge
    multiplicities, dict/list updates, ngrams, merges, save/load)"""
    cm = _cm(chk)
    rng = random.Random(chk.seed + 101 + seed)
    tmp = tempfile.mkdtemp(prefix="skv")
    try:
        for t in range(n):
            w, d = rng.choice([(1, 1), (2, 2), (3, 2), (2, 3), (5, 3)])
            keys = rng.sample(KEYS, 4)
            sks = [cm.CountMinLinear(w, d) for _ in range(rng.choice([1, 2, 3]))]
            true = [Counter() for _ in sks]
            hist = []
            for step in range(rng.randrange(1, 7)):
                i = rng.randrange(len(sks))
                op = rng.choice(["add", "add", "big", "dict", "list", "ngram", "merge", "saveload"])
                k = rng.choice(keys)
                if op == "add":
                    v = rng.choice([0, 1, 2, 7])
                    sks[i].add(k, v)
                    true[i][k] += v
                    hist.append(("add", i, k, v))
                elif op == "big":
                    v = rng.choice([MAX32 - 1, MAX32, MAX32 + 1, 2**32 + 5, 2**40])
                    sks[i].add(k, v)
                    true[i][k] += v
                    hist.append(("add", i, k, v))
                elif op == "dict":
                    dd = {k: rng.choice([1, 3, 2**32 + 3]), rng.choice(keys): 2}
                    sks[i].update(dd)
                    for kk, vv in dd.items():
                        true[i][kk] += vv
                    hist.append(("update", i, dd))
                elif op == "list":
                    ll = [rng.choice(keys) for _ in range(3)]
                    sks[i].update(ll)
                    for kk in ll:
                        true[i][kk] += 1
                    hist.append(("update", i, ll))
                elif op == "ngram":
                    ng = rng.choice([1, 2, 3, 9])
                    sks[i].add_ngram(k, ng)
                    ws = [k] if len(k) <= ng else [k[j : j + ng] for j in range(len(k) - ng + 1)]
                    for wk in ws:
                        true[i][wk] += 1
                    hist.append(("add_ngram", i, k, ng))
                elif op == "merge" and len(sks) > 1:
                    j = rng.choice([x for x in range(len(sks)) if x != i])
                    sks[i].merge(sks[j])
                    true[i].update(true[j])
                    hist.append(("merge", i, j))
                elif op == "saveload":
                    fn = os.path.join(tmp, "s.npz")
                    sks[i].save(fn)
                    sks[i] = cm.load(fn)
                    hist.append(("saveload", i))
                # check sketch i
                sk = sks[i]
                allk = list(true[i].keys()) + keys
                for q in set(allk):
                    est = int(sk.query(q))
                    lo = min(true[i][q], MAX32)
                    cq = cols(sk, q)
                    ub = min(min(sum(v for kk, v in true[i].items() if cols(sk, kk)[r] == cq[r]) for r in range(d)), MAX32)
                    if not (lo <= est <= ub) or int(sk[q]) != est:
                        return {"key": "CountMinLinear(%d,%d) history %r" % (w, d, hist), "class": "CountMinLinear", "shape": [w, d], "history": repr(hist), "query": q.hex(), "observed": est, "expected": "between %d and %d" % (lo, ub), "how": "bounded oracle on the real class"}
                tot = sum(true[i].values())
                if tot <= MAX32 and int(sk.n_added()) != tot and all(v <= MAX32 for v in true[i].values()):
                    pass  # n_added is only exact when no add is cut short (C05); not part of C01
    finally:
        for f in os.listdir(tmp):
            os.unlink(os.path.join(tmp, f))
        os.rmdir(tmp)
    return None


def state_of(sk):
    out = {}
    for n in ("cms", "n_added_records", "registers", "lhh", "lhh_count", "key_lens"):
        if hasattr(sk, n):
            out[n] = np.array(getattr(sk, n)).copy()
    if hasattr(sk, "rand_ptr"):
        out["rand_ptr"] = np.array([int(sk.rand_ptr)])
    return out


def same_state(a, b):
    return a.keys() == b.keys() and all(np.array_equal(a[k], b[k]) for k in a)


def make(chk, cls, rng):
    cm, hl, hh = chk.module("countmin"), chk.module("hyperloglog"), chk.module("heavyhitters")
    w, d = rng.choice([(1, 1), (2, 2), (3, 2), (5, 3)])
    if cls == "CountMinLinear":
        return lambda: cm.CountMinLinear(w, d)
    if cls == "CountMinLog16":
        nr = rng.choice([0, 3, 1023])
        return lambda: cm.CountMinLog16(w, d, 2**32 - 1, nr)
    if cls == "CountMinLog8":
        nr = rng.choice([0, 3, 15])
        return lambda: cm.CountMinLog8(w, d, 2**32 - 1, nr)
    if cls == "HyperLogLog":
        p, seed = rng.choice([7, 8]), rng.choice([0, 5, 2**63 + 1])
        return lambda: hl.HyperLogLog(p, seed)
    mkl = rng.choice([2, 4, 16])
    return lambda: hh.HeavyHitters(w, d, mkl)


def fix_draws(sk, draws):
    if hasattr(sk, "rand_nums"):
        sk.rand_nums[:] = draws
        sk.rand_ptr = 0


CLASSES = ["CountMinLinear", "CountMinLog16", "CountMinLog8", "HyperLogLog", "HeavyHitters"]


def c12_equiv(chk, n, classes=CLASSES):
    """batch / dict / multiplicity / ngram entry points against loops of single adds, same draws"""
    rng = random.Random(chk.seed + 202)
    nprng = np.random.default_rng(chk.seed + 1)
    for t in range(n):
        for cls in classes:
            mk = make(chk, cls, rng)
            draws = nprng.random(2048)
            keys = [rng.choice(KEYS) for _ in range(rng.randrange(1, 7))]
            kind = rng.choice(["list", "dict", "mult", "ngram", "update_ngram", "getitem"])
            a, b = mk(), mk()
            fix_draws(a, draws)
            fix_draws(b, draws)
            desc = None
            if kind == "list":
                a.update(list(keys))
                for k in keys:
                    b.add(k)
                desc = "update(%r) vs add() per element" % keys
            elif kind == "dict":
                dd = {k: rng.choice([1, 2, 5, 40]) for k in keys}
                a.update(dict(dd))
                for k, v in dd.items():
                    b.add(k, v)
                desc = "update(%r) vs add(k, v) per item" % dd
            elif kind == "mult":
                k, v = keys[0], rng.choice([1, 2, 3, 17, 60])
                pre = [rng.choice(KEYS) for _ in range(2)]
                for x in pre:
                    a.add(x, rng.choice([1, 4]))
                for kk in ("cms", "lhh", "lhh_count", "key_lens", "registers", "n_added_records"):
                    if hasattr(a, kk):
                        getattr(b, kk)[...] = getattr(a, kk)
                fix_draws(a, draws)
                fix_draws(b, draws)
                a.add(k, v)
                for _ in range(v):
                    b.add(k, 1) if cls != "HyperLogLog" else b.add(k)
                desc = "add(%r, %d) vs %d single adds (after %r)" % (k, v, v, pre)
            elif kind == "ngram":
                k = rng.choice([b"abcdefghij", b"ab\x00\x00cd", b"a", b""] + keys)
                ng = rng.choice([1, 2, 3, len(k), len(k) + 1, max(1, len(k) - 1), 17])
                a.add_ngram(k, ng)
                for wk in ([k] if len(k) <= ng else [k[j : j + ng] for j in range(len(k) - ng + 1)]):
                    b.add(wk)
                desc = "add_ngram(%r, %d) vs add() of every window" % (k, ng)
            elif kind == "update_ngram":
                ng = rng.choice([1, 2, 3])
                a.update_ngram(list(keys), ng)
                for k in keys:
                    b.add_ngram(k, ng)
                desc = "update_ngram(%r, %d) vs add_ngram per element" % (keys, ng)
            else:
                if cls == "HyperLogLog":
                    continue
                for k in keys:
                    a.add(k, 3)
                k = keys[0][: int(getattr(a, "max_key_len", 99))]
                va = a[k]
                vb = a.query(k) if cls != "HeavyHitters" else dict(a.query(100, 0)).get(k, 0)
                if cls != "HeavyHitters" and va != vb:
                    return {"key": "%s: sketch[key] != query(key)" % cls, "class": cls, "observed": [float(va), float(vb)], "how": "bounded oracle on the real class"}
                continue
            if not same_state(state_of(a), state_of(b)):
                return {"key": "%s: %s" % (cls, desc), "class": cls, "what": desc, "observed": "resulting states differ", "expected": "identical state", "how": "bounded oracle on the real class"}
    return None


def hh_history(chk, n):
    """C03/C04/C13 on random histories of heavy-hitter sketches (NUL-padded aliases, width 1..3)"""
    hhm = chk.module("heavyhitters")
    rng = random.Random(chk.seed + 303)
    tmp = tempfile.mkdtemp(prefix="skv")
    try:
        # targeted: NUL-padded aliases that are all stored and all qualify must all be reported
        for w, d, mkl, fam in ((64, 2, 4, [b"ab", b"ab\x00", b"ab\x00\x00"]), (64, 1, 3, [b"\x00", b"\x00\x00", b""]), (32, 2, 8, [b"k", b"k\x00"])):
            sk = hhm.HeavyHitters(w, d, mkl)
            other = hhm.HeavyHitters(w, d, mkl)
            for i, k in enumerate(fam):
                (sk if i % 2 == 0 else other).add(k, 10 + i)
            sk.merge(other)
            full = dict(sk.query(1000, 1))
            for i, k in enumerate(fam):
                if int(sk[k]) >= 1 and k not in full:
                    return {"key": "HeavyHitters(%d,%d,%d) aliases %r" % (w, d, mkl, fam), "property": "C13", "observed": "added key %r with hh[key]=%d missing from query(1000, 1) = %r" % (k, int(sk[k]), full), "how": "bounded oracle on the real class"}
        for t in range(n):
            w, d, mkl = rng.choice([(1, 1, 4), (1, 2, 2), (2, 2, 4), (3, 2, 3)])
            keys = rng.sample(KEYS, 5)
            sks = [hhm.HeavyHitters(w, d, mkl) for _ in range(rng.choice([1, 2, 3]))]
            true = [Counter() for _ in sks]
            hist = []
            for step in range(rng.randrange(1, 8)):
                i = rng.randrange(len(sks))
                op = rng.choice(["add", "add", "dict", "ngram", "merge", "saveload", "query"])
                k = rng.choice(keys)
                if op == "add":
                    v = rng.choice([1, 1, 2, 5, 9])
                    sks[i].add(k, v)
                    true[i][k[:mkl]] += v
                    hist.append(("add", i, k, v))
                elif op == "dict":
                    dd = {k: rng.choice([1, 3]), rng.choice(keys): 2}
                    sks[i].update(dd)
                    for kk, vv in dd.items():
                        true[i][kk[:mkl]] += vv
                    hist.append(("update", i, dd))
                elif op == "ngram":
                    ng = rng.choice([1, 2, 3, 6])
                    sks[i].add_ngram(k, ng)
                    for wk in ([k] if len(k) <= ng else [k[j : j + ng] for j in range(len(k) - ng + 1)]):
                        true[i][wk[:mkl]] += 1
                    hist.append(("add_ngram", i, k, ng))
                elif op == "merge" and len(sks) > 1:
                    j = rng.choice([x for x in range(len(sks)) if x != i])
                    sks[i].merge(sks[j])
                    true[i].update(true[j])
                    hist.append(("merge", i, j))
                elif op == "saveload":
                    fn = os.path.join(tmp, "h.npz")
                    sks[i].save(fn)
                    sks[i] = hhm.HeavyHitters.load(fn)
                    hist.append(("saveload", i))
                elif op == "query":
                    th = rng.choice([None, 0, 1, 2, 10**6])
                    sks[i].query(rng.choice([1, 2, 100]), th)
                    hist.append(("query", i, th))
                sk = sks[i]
                N = sum(true[i].values())
                # hh[key] is read before anything refreshes the Python-side cache, and again afterwards:
                # it is a function of the tables alone
                watch = sorted(set(list(true[i].keys()) + [kk[:mkl] for kk in keys]))
                before = {key: int(sk[key]) for key in watch}
                # C03: never over-count, never report an un-added key
                rep = sk.query(1000, 0)
                for key in watch:
                    if int(sk[key]) != before[key]:
                        return {"key": "HeavyHitters(%d,%d,%d) history %r" % (w, d, mkl, hist), "property": None, "history": repr(hist), "observed": "hh[%r] was %d before query(1000, 0) and %d after it (same tables)" % (key, before[key], int(sk[key])), "how": "bounded oracle on the real class"}
                for key, cnt in rep:
                    if cnt > true[i][key] or (cnt > 0 and true[i][key] == 0):
                        return {"key": "HeavyHitters(%d,%d,%d) history %r" % (w, d, mkl, hist), "property": "C03", "history": repr(hist), "observed": "query reports %r with count %d, true count %d" % (key, cnt, true[i][key]), "how": "bounded oracle on the real class"}
                for key in set(list(true[i].keys()) + [kk[:mkl] for kk in keys]):
                    if int(sk[key]) > true[i][key]:
                        return {"key": "HeavyHitters(%d,%d,%d) history %r" % (w, d, mkl, hist), "property": "C03", "history": repr(hist), "observed": "hh[%r] = %d > true %d" % (key, int(sk[key]), true[i][key]), "how": "bounded oracle on the real class"}
                # C13: fresh, ordered, thresholded, consistent with hh[key]
                for th in (None, 0, 1, 3):
                    for kk in (1, 2, 100):
                        ans = sk.query(kk, th)
                        thr = int(np.uint32(float(sk.phi) * int(sk.n_added()))) if th is None else th
                        full = sk.query(10**6, th)
                        ok = len(ans) <= kk and all(c >= thr for _, c in ans) and all(ans[j][1] >= ans[j + 1][1] for j in range(len(ans) - 1)) and len(set(k_ for k_, _ in ans)) == len(ans) and all(int(sk[k_]) == c for k_, c in ans) and [c for _, c in ans] == [c for _, c in full[:kk]]
                        for key in true[i]:
                            if int(sk[key]) >= max(thr, 1) and key not in dict(full):
                                ok = False
                        fn = os.path.join(tmp, "f.npz")
                        sk.save(fn)
                        fresh = hhm.HeavyHitters.load(fn)
                        if sorted(fresh.query(10**6, th), key=lambda x: (-x[1], x[0])) != sorted(full, key=lambda x: (-x[1], x[0])):
                            ok = False
                        if not ok:
                            return {"key": "HeavyHitters(%d,%d,%d) history %r query(%r,%r)" % (w, d, mkl, hist, kk, th), "property": "C13", "history": repr(hist), "observed": repr(ans), "full": repr(full), "how": "bounded oracle on the real class"}
                # C04 at width 1 (W_r = N), absent saturation
                if w == 1:
                    for key, f in true[i].items():
                        if 2 * f - N > 0 and int(sk[key]) < 2 * f - N:
                            return {"key": "HeavyHitters(1,%d,%d) history %r" % (d, mkl, hist), "property": "C04", "history": repr(hist), "observed": "hh[%r] = %d < 2f-N = %d" % (key, int(sk[key]), 2 * f - N), "how": "bounded oracle on the real class"}
                        if 2 * f > N:
                            top = sk.query(1, 0)
                            if not top or top[0][0] != key:
                                return {"key": "HeavyHitters(1,%d,%d) history %r" % (d, mkl, hist), "property": "C04", "history": repr(hist), "observed": "majority key %r not first: %r" % (key, top), "how": "bounded oracle on the real class"}
    finally:
        for f in os.listdir(tmp):
            os.unlink(os.path.join(tmp, f))
        os.rmdir(tmp)
    return None


def hll_history(chk, n):
    """C02 on random histories: registers equal a fresh sketch fed each distinct key once"""
    hl = chk.module("hyperloglog")
    rng = random.Random(chk.seed + 404)
    for t in range(n):
        p, seed = rng.choice([7, 8, 11]), rng.choice([0, 3, 2**63 + 9])
        keys = [bytes(rng.randrange(256) for _ in range(rng.choice([0, 1, 4, 9]))) for _ in range(rng.randrange(1, 12))]
        sks = [hl.HyperLogLog(p, seed) for _ in range(rng.choice([1, 2, 3]))]
        sets = [set() for _ in sks]
        for step in range(rng.randrange(1, 9)):
            i = rng.randrange(len(sks))
            op = rng.choice(["add", "list", "dict", "ngram", "merge"])
            k = rng.choice(keys)
            if op == "add":
                sks[i].add(k, rng.choice([1, 5]))
                sets[i].add(k)
            elif op == "list":
                ll = [rng.choice(keys) for _ in range(3)]
                sks[i].update(ll)
                sets[i].update(ll)
            elif op == "dict":
                dd = {rng.choice(keys): 7, k: 1}
                sks[i].update(dd)
                sets[i].update(dd.keys())
            elif op == "ngram":
                ng = rng.choice([1, 2, 5])
                sks[i].add_ngram(k, ng)
                sets[i].update([k] if len(k) <= ng else [k[j : j + ng] for j in range(len(k) - ng + 1)])
            elif len(sks) > 1:
                j = rng.choice([x for x in range(len(sks)) if x != i])
                sks[i].merge(sks[j])
                sets[i] |= sets[j]
            ref = hl.HyperLogLog(p, seed)
            for kk in sorted(sets[i]):
                ref.add(kk)
            if not np.array_equal(ref.registers, sks[i].registers) or ref.query() != sks[i].query():
                return {"key": "HyperLogLog(%d,%d) after %d steps" % (p, seed, step + 1), "observed": "registers differ from the fresh sketch fed each distinct key once", "how": "bounded oracle on the real class"}
    return None
