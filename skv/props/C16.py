"""C16 - shared-memory and attached sketches behave exactly like in-memory ones."""
import json
import random

import numpy as np
import z3

from .. import glue, pyexec as X
from ..pyexec import Sym, Const, Ref, Arr
from . import _glue, _wrappers

ARRAYS = {
    "CountMinLinear": ["cms", "n_added_records"],
    "CountMinLog16": ["cms", "n_added_records"],
    "CountMinLog8": ["cms", "n_added_records"],
    "HyperLogLog": ["registers"],
    "HeavyHitters": ["lhh", "lhh_count", "key_lens", "n_added_records"],
}
PARAMF = {
    "CountMinLinear": ["width", "depth", "uint_maxval"],
    "CountMinLog16": ["width", "depth", "uint_maxval", "max_count", "num_reserved"],
    "CountMinLog8": ["width", "depth", "uint_maxval", "max_count", "num_reserved"],
    "HyperLogLog": ["p", "seed", "m"],
    "HeavyHitters": ["width", "depth", "max_key_len", "uint_maxval"],
}
ISZ = {"uint8": 1, "uint16": 2, "uint32": 4, "uint64": 8}


def view(a):
    blk, start, stop = a.buf
    return blk, z3.simplify(start), z3.simplify(stop) if stop is not None else None


def nbytes(a):
    n = z3.IntVal(ISZ[a.dtype])
    for s_ in a.shape:
        n = n * s_
    return n


def layout_found(chk, cls, a, pc, goal, fallback):
    """replay of a refuted layout obligation: constructor arguments from the solver's counterexample
    (small values preferred), the real shared sketch is built and its arrays are tested for overlap"""
    import numpy as np

    def f():
        small = [z3.And(v.t >= 1, v.t <= 40) for k, v in a.items() if isinstance(v, Sym) and z3.is_int(v.t) and k in ("width", "depth", "max_key_len")]
        for extra in (small, []):
            s = z3.Solver()
            s.set("timeout", 20000)
            for h in pc:
                s.add(h)
            s.add(z3.Not(goal))
            for e in extra:
                s.add(e)
            if s.check() != z3.sat:
                continue
            m = s.model()
            cfg = {}
            for k, v in a.items():
                if isinstance(v, Sym) and z3.is_int(v.t):
                    val = m.eval(v.t, model_completion=True)
                    if z3.is_int_value(val):
                        cfg[k] = val.as_long()
            if any(v > 10**6 for k, v in cfg.items() if k in ("width", "depth", "max_key_len")) or cfg.get("p", 8) > 16:
                continue
            mod = chk.module({"HyperLogLog": "hyperloglog", "HeavyHitters": "heavyhitters"}.get(cls, "countmin"))
            obj = None
            for c_ in (cfg, {k: v for k, v in cfg.items() if k not in ("max_count", "num_reserved")}):
                try:
                    obj = getattr(mod, cls)(**c_, shared_memory=True)
                    cfg = c_
                    break
                except Exception:
                    continue
            if obj is None:
                continue
            res = None
            names = ARRAYS[cls]
            for i, n1 in enumerate(names):
                for n2 in names[i + 1:]:
                    if res is None and np.shares_memory(getattr(obj, n1), getattr(obj, n2)):
                        res = {"key": "%s(%s, shared_memory=True)" % (cls, cfg), "observed": "%s and %s overlap in the shared block" % (n1, n2), "expected": "disjoint views", "how": "solver counterexample of the layout obligation, built on the real class"}
            if res is None:
                try:
                    twin = getattr(mod, cls)(**cfg)
                    for n1 in names:
                        if getattr(obj, n1).shape != getattr(twin, n1).shape:
                            res = {"key": "%s(%s, shared_memory=True)" % (cls, cfg), "observed": "%s has shape %s" % (n1, getattr(obj, n1).shape), "expected": "%s as without shared memory" % (getattr(twin, n1).shape,), "how": "solver counterexample of the layout obligation, built on the real class"}
                            break
                    del twin
                except Exception:
                    pass
            if res is None and "n_added_records" in names and obj.n_added_records.size != 2:
                res = {"key": "%s(%s, shared_memory=True)" % (cls, cfg), "observed": "n_added_records has %d elements" % obj.n_added_records.size, "expected": "2", "how": "solver counterexample of the layout obligation, built on the real class"}
            del obj
            if res:
                return res
        return fallback() if fallback else None

    return f


def owner_layout(chk, ex, cls, found):
    """the arrays of a shared-memory sketch tile its block in order without overlap, each with
    exactly the bytes of its array (so that the kernels' operands never alias); returns
    (oref, ost, of, shm, size) or None"""
    name = cls
    if ("layout", cls) in chk.done:
        return chk.layouts.get(cls) if hasattr(chk, "layouts") else None
    chk.done.add(("layout", cls))
    a, owners, _ = _glue.good_objects(ex, cls, "o", shared=True)
    _wrappers.row(chk, name + ":shared-constructor-succeeds", bool(owners), None, found)
    if not owners:
        return None
    first = None
    if not hasattr(chk, "layouts_all"):
        chk.layouts_all = {}
    chk.layouts_all[cls] = []
    for ci, (oref, ost) in enumerate(owners):
        # every successful path of the constructor (library calls such as np.require fork: they may
        # hand back their argument or a copy of it)
        r = _owner_layout_path(chk, ex, cls, name if ci == 0 else "%s[constructor path %d]" % (name, ci), a, oref, ost, found)
        first = first if first is not None else r
        if r is not None:
            chk.layouts_all[cls].append(r)
    if not hasattr(chk, "layouts"):
        chk.layouts = {}
    chk.layouts[cls] = first
    return first


def _owner_layout_path(chk, ex, cls, name, a, oref, ost, found):
    of = ost.objs[oref.oid]["fields"]
    shm = of.get("shm")
    _wrappers.row(chk, name + ":owner-keeps-its-block", isinstance(shm, Ref), None, found)
    size = ost.objs[shm.oid]["fields"]["size"].t
    pc = ost.pc
    # owner layout: views tile the block in order, each view has exactly the bytes of its array
    pos = z3.IntVal(0)
    for fld in ARRAYS[cls]:
        arr = of.get(fld)
        okv = isinstance(arr, Arr) and arr.buf is not None and arr.buf[0] == ost.objs[shm.oid]["fields"]["buf"].oid
        _wrappers.row(chk, "%s:owner:%s-is-a-view-of-the-block" % (name, fld), okv, None, found)
        if not okv:
            return None
        blk, start, stop = view(arr)
        stop = stop if stop is not None else size
        chk.prove("%s:owner:%s:starts-where-the-previous-view-ends" % (name, fld), pc, start == pos, tag="G", found=layout_found(chk, cls, a, pc, start == pos, found))
        chk.prove("%s:owner:%s:view-bytes==array-bytes" % (name, fld), pc, stop - start == nbytes(arr), tag="G", found=layout_found(chk, cls, a, pc, stop - start == nbytes(arr), found))
        pos = stop
    chk.prove("%s:owner:views-cover-the-block" % name, pc, pos == size, tag="G", found=layout_found(chk, cls, a, pc, pos == size, found))
    if "n_added_records" in ARRAYS[cls]:
        g_ = of["n_added_records"].shape[0] == 2
        chk.prove("%s:owner:n_added_records-has-2-elements" % name, pc, g_, tag="G", found=layout_found(chk, cls, a, pc, g_, found))
    # the shared tables have the shapes of the in-memory ones (same constructor arguments): the kernels
    # walk whole arrays (e.g. the harmonic sum of all registers), so a larger view changes results
    pb, plains, _ = _glue.good_objects(ex, cls, "o", shared=False, st=ost.fork())
    if plains:
        pf = plains[0][1].objs[plains[0][0].oid]["fields"]
        for fld in ARRAYS[cls]:
            x, y = of.get(fld), pf.get(fld)
            if isinstance(x, Arr) and isinstance(y, Arr) and len(x.shape) == len(y.shape):
                for i, (u, v) in enumerate(zip(x.shape, y.shape)):
                    g_ = u == v
                    chk.prove("%s:owner:%s:shape%d-as-in-memory" % (name, fld, i), plains[0][1].pc, g_, tag="G", found=layout_found(chk, cls, a, plains[0][1].pc, g_, found))
            else:
                _wrappers.row(chk, "%s:owner:%s:rank-as-in-memory" % (name, fld), False, None, found)
    return oref, ost, of, shm, size


def check_class(chk, ex, cls, found):
    name = cls
    lay = owner_layout(chk, ex, cls, found)
    if lay is None:
        return
    oref, ost, of, shm, size = lay
    # attached view: a plain object built from the same arguments, then attach_existing_shm
    st = ost.fork()
    b, plains, _ = _glue.good_objects(ex, cls, "o", shared=False, st=st)
    pref, pst = plains[0]
    ex.attach_size = size
    pre_fields = dict(pst.objs[pref.oid]["fields"])
    try:
        outs = _glue.call_method(ex, pst, pref, "attach_existing_shm", [Sym(z3.Int("shmname"), "str")])
    finally:
        ex.attach_size = None
    rets = [(o, e) for o, e in outs if o.kind == "return"]
    _wrappers.row(chk, name + ":attach-does-not-raise", len(rets) == len(outs) and rets, None, found)
    if not rets:
        return
    for pi, (o, eff) in enumerate(rets):
        _attached_path(chk, ex, cls, name if len(rets) == 1 else "%s[path %d]" % (name, pi), o, eff, pref, of, ost, oref, shm, size, found, pre_fields)
    _attach_helper(chk, ex, cls, name, of, ost, size, found)


def _attached_path(chk, ex, cls, name, o, eff, pref, of, ost, oref, shm, size, found, pre_fields=None):
    af = o.state.objs[pref.oid]["fields"]
    att = [e for e in eff if e[0] == "shm-attach"]
    _wrappers.row(chk, name + ":attach-opens-the-named-block-once", len(att) == 1 and not any(e[0] == "shm-create" for e in eff), None, found)
    _wrappers.row(chk, name + ":attached-view-remembers-existing_shm-not-shm", isinstance(af.get("existing_shm"), Ref) and "shm" not in af, None, found)
    apc = o.state.pc
    # frame: apart from the views and existing_shm, attaching leaves every field that the ordinary
    # constructor set with its value (an attached sketch is the ordinary sketch over another buffer;
    # its Python-side caches must not claim to be newer than they are)
    before = pre_fields or {}
    changed = []
    for e in eff:
        if e[0] == "setattr" and e[1] == pref.oid and e[2] not in ARRAYS[cls] and e[2] != "existing_shm" and e[2] in before:
            if not _wrappers.same_value(chk, apc, af.get(e[2]), before[e[2]]):
                changed.append(e[2])
    _wrappers.row(chk, name + ":attach-leaves-the-other-fields-of-the-sketch-as-constructed", not changed, "fields given another value: %s" % sorted(set(changed)), found)
    for fld in ARRAYS[cls]:
        x, y = of.get(fld), af.get(fld)
        okv = isinstance(y, Arr) and y.buf is not None and y.buf[0] == o.state.objs[af["existing_shm"].oid]["fields"]["buf"].oid if isinstance(af.get("existing_shm"), Ref) else False
        _wrappers.row(chk, "%s:attached:%s-is-a-view-of-the-attached-block" % (name, fld), okv, None, found)
        if not okv:
            continue
        _, s1, e1 = view(x)
        _, s2, e2 = view(y)
        e1 = e1 if e1 is not None else size
        e2 = e2 if e2 is not None else size
        chk.prove("%s:attached:%s:same-offset" % (name, fld), apc, s1 == s2, tag="G")
        chk.prove("%s:attached:%s:same-extent" % (name, fld), apc, e1 == e2, tag="G")
        _wrappers.row(chk, "%s:attached:%s:same-dtype-and-rank" % (name, fld), x.dtype == y.dtype and len(x.shape) == len(y.shape), "%s/%d vs %s/%d" % (x.dtype, len(x.shape), y.dtype, len(y.shape)), found)
        for i, (u, v) in enumerate(zip(x.shape, y.shape)):
            chk.prove("%s:attached:%s:same-shape%d" % (name, fld, i), apc, u == v, tag="G")
    # one state for all handles: what a handle answers must not be remembered across a write made
    # through another handle of the same block - owner.query(); view.add(); owner.query() asks the
    # kernel again (heavy hitters: their cache is keyed on n_added, which lives in the block - C13)
    if cls != "HeavyHitters":
        k1, k2 = _wrappers.key_sym("k1"), _wrappers.key_sym("k2")
        qargs = [] if cls == "HyperLogLog" else [k1]
        for who, first, second in (("owner", oref, pref), ("view", pref, oref)):
            st = o.state.fork()
            st.pc += [X.BYTESLEN(k1.t) >= 0, X.BYTESLEN(k2.t) >= 0]
            ok, why = True, []
            for o1, e1 in _glue.call_method(ex, st, first, "query", qargs):
                if o1.kind != "return":
                    continue
                want = [k[1] for k in _wrappers.kernel_calls(e1)]
                for o2, e2 in _glue.call_method(ex, o1.state.fork(), second, "add", [k2]):
                    if o2.kind != "return":
                        continue
                    for o3, e3 in _glue.call_method(ex, o2.state.fork(), first, "query", qargs):
                        got = [k[1] for k in _wrappers.kernel_calls(e3)]
                        if o3.kind != "return" or got != want or not want:
                            ok = False
                            why.append("first query: %s, after the other handle's add: %s" % (want, got))
            _wrappers.row(chk, "%s:%s.query(); other-handle.add(); %s.query() asks the kernel again" % (name, who, who), ok, why[:2], found)
    # __del__: the owner closes and unlinks its own block; a view only closes; arrays are dropped first
    for who, ref, state, fields in (("owner", oref, ost.fork(), of), ("attached", pref, o.state.fork(), af)):
        douts = _glue.call_method(ex, state, ref, "__del__", [])
        for do, de in douts:
            unl = [e for e in de if e[0] == "shm.unlink"]
            cl = [e for e in de if e[0] == "shm.close"]
            if who == "owner":
                okd = do.kind == "return" and len(unl) == 1 and unl[0][1] == shm.oid and len(cl) == 1 and cl[0][1] == shm.oid
                _wrappers.row(chk, name + ":__del__:owner-closes-and-unlinks-its-block", okd, [e[0] for e in de], found)
            else:
                okd = do.kind == "return" and not unl and len(cl) == 1 and cl[0][1] == af["existing_shm"].oid
                _wrappers.row(chk, name + ":__del__:view-only-closes", okd, [e[0] for e in de], found)
            # views deleted before close
            order = [e[0] for e in de if e[0] in ("delattr", "shm.close")]
            dels = [e[2] for e in de if e[0] == "delattr"]
            okv = set(ARRAYS[cls]) <= set(dels) and (not order or order.index("shm.close") >= len(ARRAYS[cls]))
            _wrappers.row(chk, "%s:__del__:%s-drops-its-views-before-close" % (name, who), okv, order, found)


def _attach_helper(chk, ex, cls, name, of, ost, size, found):
    # helpers.attach_shared_memory rebuilds the sketch from the owner's args and attaches it
    if ("attach-helper", name) in chk.done:
        return
    chk.done.add(("attach-helper", name))
    if True:
        kind = {"HyperLogLog": "hll", "HeavyHitters": "hh"}.get(cls, "cms")
        fn = ex.func("helpers", "attach_shared_memory")
        st2 = ost.fork()
        ex.attach_size = size
        try:
            houts = ex.call_function(fn, [Const(kind), of["args"], Sym(z3.Int("shmname"), "str")], {}, st2)
        finally:
            ex.attach_size = None
        good = [h for h in houts if h.kind == "return"]
        _wrappers.row(chk, name + ":attach_shared_memory:succeeds", len(good) >= 1 and all(h.kind == "return" or not h.state for h in houts[:0] or good), [h.kind for h in houts], found)
        for h in good:
            lf = h.state.objs[h.value.oid]["fields"] if isinstance(h.value, Ref) else {}
            okc = isinstance(h.value, Ref) and h.state.objs[h.value.oid]["cls"].name == cls
            _wrappers.row(chk, name + ":attach_shared_memory:same-class", okc, None, found)
            if not okc:
                continue
            for pn in PARAMF[cls]:
                x, y = of.get(pn), lf.get(pn)
                if x is None or y is None:
                    _wrappers.row(chk, "%s:attach_shared_memory:param:%s" % (name, pn), False, "missing", found)
                    continue
                chk.prove("%s:attach_shared_memory:param:%s" % (name, pn), h.state.pc, _glue.ex_num(x) == _glue.ex_num(y), tag="G")
            _wrappers.row(chk, name + ":attach_shared_memory:is-attached", isinstance(lf.get("existing_shm"), Ref), None, found)


def oracle(chk):
    """owner + attached view + in-memory twin on odd shapes: same results, one shared state"""
    from . import _oracle

    rng = random.Random(chk.seed + 606)
    helpers = chk.module("helpers")
    cm, hl, hh = chk.module("countmin"), chk.module("hyperloglog"), chk.module("heavyhitters")
    cases = [
        ("cms", lambda sm: cm.CountMin("linear", 7, 3, shared_memory=sm), None),
        ("cms", lambda sm: cm.CountMin("log8", 5, 3, 10**6, 100, shared_memory=sm), None),
        ("cms", lambda sm: cm.CountMin("log16", 3, 1, 2**40, 7, shared_memory=sm), None),
        ("hh", lambda sm: hh.HeavyHitters(3, 1, 1, shared_memory=sm), None),
        ("hh", lambda sm: hh.HeavyHitters(2, 3, 5, shared_memory=sm), None),
        ("hll", lambda sm: hl.HyperLogLog(7, 11, shared_memory=sm), None),
    ]
    for kind, mk, _ in cases:
        owner, twin = mk(True), mk(False)
        desc0 = "%s %s" % (type(owner).__name__, owner.args)
        view = helpers.attach_shared_memory(kind, owner.args, owner.shm.name)
        keys = _oracle.KEYS[:7]
        seq = [(rng.choice(["o", "v"]), rng.choice(keys), rng.choice([1, 2, 3])) for _ in range(10)]
        for who, k, v in seq:
            # every handle is asked before the other one writes: nothing it answers may be remembered
            if kind == "hll":
                owner.query(), view.query()
            elif kind == "cms":
                owner.query(k), view.query(k)
            (owner if who == "o" else view).add(k, v)
            twin.add(k, v)
        bad = None
        so, sv, stw = _oracle.state_of(owner), _oracle.state_of(view), _oracle.state_of(twin)
        for d in (so, sv, stw):
            d.pop("rand_ptr", None)
        reserved_only = kind != "cms" or True
        if not _oracle.same_state(so, sv):
            bad = "owner and attached view observe different state"
        elif not _oracle.same_state(so, stw) and not hasattr(owner, "rand_nums"):
            bad = "shared sketch differs from the in-memory twin"
        elif hasattr(owner, "n_added") and (int(owner.n_added()) != int(view.n_added()) or int(owner.n_added()) != int(twin.n_added())):
            bad = "n_added differs: owner %d view %d twin %d" % (int(owner.n_added()), int(view.n_added()), int(twin.n_added()))
        elif kind == "cms" and any(float(owner.query(k)) != float(view.query(k)) for k in keys):
            bad = "owner.query != view.query"
        elif kind == "hll" and not (float(owner.query()) == float(view.query()) == float(twin.query())):
            bad = "query() differs between handles of one block / the in-memory twin: owner %r view %r twin %r" % (float(owner.query()), float(view.query()), float(twin.query()))
        import os
        import tempfile

        if not bad:
            # a view attached after the block was filled answers like the owner and the twin
            late = helpers.attach_shared_memory(kind, owner.args, owner.shm.name)
            if kind == "hh":
                qs = [(x.query(5, 0), x.query(5), [int(x[k[: owner.max_key_len]]) for k in keys]) for x in (owner, late, twin)]
            elif kind == "hll":
                qs = [float(x.query()) for x in (owner, late, twin)]
            else:
                qs = [[float(x.query(k)) for k in keys] for x in (owner, late)]
            if any(q != qs[0] for q in qs[1:]):
                bad = "a view attached to the filled block answers differently: %s" % (qs,)
            del late
        if not bad:
            # a sketch loaded with shared_memory=True is a shared sketch: its views see its state
            tmp = tempfile.mkdtemp(prefix="skv")
            fn = os.path.join(tmp, "x.npz")
            try:
                owner.save(fn)
                own2 = (cm.load if kind == "cms" else type(owner).load)(fn, True)
                if getattr(own2, "shm", None) is None:
                    return {"key": desc0, "observed": "load(file, shared_memory=True) returned a sketch that owns no shared block", "expected": "a shared sketch", "how": "bounded oracle on the real classes (odd shapes)"}
                v2 = helpers.attach_shared_memory(kind, own2.args, own2.shm.name)
                s2, s3 = _oracle.state_of(own2), _oracle.state_of(v2)
                for d in (s2, s3):
                    d.pop("rand_ptr", None)
                if not _oracle.same_state(s2, s3):
                    bad = "load(shared_memory=True): the loaded sketch and a view attached to its block observe different state"
                elif not _oracle.same_state(s2, so):
                    bad = "load(shared_memory=True) differs from the saved sketch"
                del v2
                del own2
            finally:
                for f_ in os.listdir(tmp):
                    os.unlink(os.path.join(tmp, f_))
                os.rmdir(tmp)
        name = owner.shm.name
        del view

        if not bad and not os.path.exists("/dev/shm/" + name.lstrip("/")):
            bad = "dropping a view removed the owner's segment"
        desc = "%s %s" % (type(owner).__name__, owner.args)
        del owner
        if not bad and os.path.exists("/dev/shm/" + name.lstrip("/")):
            bad = "dropping the owner left the segment behind"
        if bad:
            return {"key": desc, "observed": bad, "how": "bounded oracle on the real classes (odd shapes)"}
    return None


def attach_helper_part(chk, ex, found, classes=None):
    """helpers.attach_shared_memory rebuilds a sketch with provably the parameters of the owner it is
    attached to, for every class (used by C08: the workers see the parent's sketches through it)"""
    for cls in (classes or ARRAYS):
        try:
            lay = owner_layout(chk, ex, cls, found)
            if lay is None:
                continue
            # every successful outcome of the shared constructor (scalar conversions in it fork)
            for pi, (oref, ost, of, shm, size) in enumerate(getattr(chk, "layouts_all", {}).get(cls) or [lay]):
                _attach_helper(chk, ex, cls, cls if pi == 0 else "%s[constructor path %d]" % (cls, pi), of, ost, size, found)
        except X.Unsupported as e:
            chk.undecided.append((cls + " attach_shared_memory", "unsupported construct in glue: %s" % e))


def loaded_shared(chk, ex, cls, found):
    """load(file, shared_memory=True) is another way to create a shared sketch: after it returns,
    the tables of the new sketch are (still) the views of the block it owns"""
    name = cls + ".load(shared_memory=True)"
    if ("loaded-shared", cls) in chk.done:
        return
    chk.done.add(("loaded-shared", cls))
    a, objs, _ = _glue.good_objects(ex, cls, "ls")
    if not objs:
        return
    sref, st0 = objs[0]
    fn = Sym(z3.Int("filename"), "str")
    saves = [(o, e) for o, e in _glue.call_method(ex, st0.fork(), sref, "save", [fn]) if o.kind == "return"]
    for o, eff in saves[:1]:
        sv = [e for e in eff if e[0] == "savez"]
        if len(sv) != 1:
            continue
        ex.npz_members = sv[0][2]
        try:
            louts = _glue.call_method(ex, o.state.fork(), sref, "load", [fn, Const(True)])
            if cls.startswith("CountMin"):
                # the module-level loader hands shared_memory on to the class loader it dispatches to
                st_m = o.state.fork()
                n_m = len(st_m.effects)
                louts = louts + [(mo, mo.state.effects[n_m:]) for mo in ex.call_function(ex.func("countmin", "load"), [fn, Const(True)], {}, st_m)]
        finally:
            ex.npz_members = None
        for lo, le in louts:
            if lo.kind != "return" or not isinstance(lo.value, Ref):
                continue
            nf = lo.state.objs[lo.value.oid]["fields"]
            shm = nf.get("shm")
            okb = isinstance(shm, Ref)
            _wrappers.row(chk, name + ":owns-a-block", okb, None, found)
            if not okb:
                continue
            blk = lo.state.objs[shm.oid]["fields"]["buf"].oid
            for fld in ARRAYS[cls]:
                arr = nf.get(fld)
                okv = isinstance(arr, Arr) and arr.buf is not None and arr.buf[0] == blk
                _wrappers.row(chk, "%s:%s-is-a-view-of-the-owned-block" % (name, fld), okv, "after load the field %s is not backed by the sketch's shared block" % fld, found)


def run(chk):
    ex = glue.make_exec(chk)
    cache = {}

    def found():
        if "r" not in cache:
            cache["r"] = oracle(chk)
        return cache["r"]

    chk.default_found = found

    for cls in ARRAYS:
        try:
            check_class(chk, ex, cls, found)
        except X.Unsupported as e:
            chk.undecided.append((cls + " shared memory", "unsupported construct in glue: %s" % e))
    ex3 = glue.make_exec(chk, {("call", "HeavyHitters.generate_candidate_set"): glue._stub_gcs})
    for cls in ARRAYS:
        try:
            loaded_shared(chk, ex3, cls, found)
        except X.Unsupported as e:
            chk.undecided.append((cls + ".load(shared_memory=True)", "unsupported construct in glue: %s" % e))
    try:
        _glue.field_stability(chk, ex3, tables=True)
    except X.Unsupported as e:
        chk.undecided.append(("field stability", "unsupported construct in glue: %s" % e))
    bad = found()
    if bad:
        chk.violation("shared-memory:bounded:oracle", {"verdict": "bounded oracle failed"}, bad)
    chk.bounded_standin("real shared-memory sketches: owner + attached view + in-memory twin on odd shapes, interleaved operations, deletion order, /dev/shm listing", "6 configurations", 6, int(bool(bad)))
    chk.assumptions.update(glue.ASSUMED)
    chk.assumptions.add("unlink removes the segment; all views of one block alias one state (SharedMemory contract)")
    chk.trusted.append("front end B (skv/pyexec.py): symbolic execution of the Python subset, re-parsed from the tree under test every run")
    chk.notes.append("Layout equations are proved for all shapes (no alignment assumption): the views created by __init__(shared_memory=True) tile the block exactly, attach_existing_shm computes provably the same offset, extent, dtype and shape for every view, n_added_records has exactly two elements; attach_shared_memory rebuilds a sketch with provably equal parameters; __del__ unlinks only through self.shm (owner), a view only closes, views are dropped before close. Since every kernel contract speaks about array contents only, results coincide with the in-memory sketch.")


def replay(path):
    doc = json.load(open(path))
    print(json.dumps(doc.get("replay") or doc.get("detail"), indent=1)[:2000])
    return 1
