"""C09 - merging count-min sketches adds the counts cell by cell, as documented."""
from . import _cm, _log
from ..lemmas_cm import lemmas_c09

KERNELS = ["countmin._merge_linear", "countmin._counter2value", "countmin._merge_log16", "countmin._merge_log8"]


def run(chk):
    chk.kernel("countmin._merge_linear", replayer=_cm.make_replayer("countmin._merge_linear"))
    for q in KERNELS[1:]:
        chk.kernel(q, replayer=lambda c, bad, tir, contract, q=q: (_log.runtime_search(c, [q], 100)[1] if q in _log.ARGS else None))
    lem, hm = lemmas_c09()
    for name, hyps, goal in lem:
        chk.prove("lemma:" + name, hyps, goal)
    chk.cover("merge clauses", hm)
    from ..lemmas_log import lemmas_merge_log

    for ceil, tag in ((65535, "log16"), (255, "log8")):
        for name, hyps, goal in lemmas_merge_log(ceil, tag):
            if ":c09:" in name:
                chk.prove("lemma:" + name, hyps, goal)
    from . import C15

    C15.merge_glue(chk, ["CountMinLinear", "CountMinLog16", "CountMinLog8"])  # merge() reaches the kernel on every accepting path
    # the parameters the merge kernels decode with are the ones the caller asked for: the factory builds
    # what the class constructor builds, the constructor hands _find_base its own arguments un-truncated
    from .. import glue as _g, pyexec as _X
    from . import C18

    try:
        C15.factory_rows(chk, _g.make_exec(chk))
    except _X.Unsupported as e:
        chk.undecided.append(("CountMin factory", "unsupported construct in glue: %s" % e))
    C18.constructor_rows(chk)
    _cm.crosscheck_linear(chk)
    quick = chk.tier == "quick"
    cases, fails, first = _log.merge_standin(chk, quick)
    if first:
        chk.violation("countmin._merge_log:bounded:nearest-counter", {"verdict": "bounded float stand-in failed", "failures": fails}, first)
    chk.bounded_standin("log merges vs nearest-decoded-counter oracle on the real kernels", "log8: all 256x256 pairs x %d configurations; log16: all counters vs empty + sampled pairs x %d configurations" % (len(_log.CONFIGS8), len(_log.CONFIGS16)), cases, fails, exhaustive=False)
    n = 25 if quick else 400
    c1, bad = _cm.runtime_search(chk, ["countmin._merge_linear"], n)
    c2, bad2 = _log.runtime_search(chk, ["countmin._merge_log16", "countmin._merge_log8"], n)
    for b in (bad, bad2):
        if b:
            chk.violation("countmin:runtime:contracts", {"verdict": "runtime contract check failed"}, b)
    chk.bounded_standin("merge contract clauses evaluated on random executions", "%d runs" % (c1 + c2), c1 + c2, int(bool(bad)) + int(bool(bad2)))
    chk.notes.append("log merges: the complete cell relation is proved over reals from the typed IR - exact sum in the reserved range, the maximum counter once the sum reaches max_count, and in between the counter nearest to the sum among the two consecutive counters that bracket it (witness floor(log_base((v-nr)(base-1)+1)) + nr, ties down); ln / pow are uninterpreted and only instances of their laws at the current cell's terms are assumed. A step-by-step proof script inside the inner loop invariant (range of the log argument, bracket, locals clower / vlower / vhigher equal the spec terms, cell relation) keeps each query small. Float rounding (as opposed to real arithmetic) is covered only by the bounded float stand-in.")
    chk.assumptions.add("float64 treated as real in _merge_log16/_merge_log8/_counter2value; float side conditions (log argument > 0, float->int in range) not checked")
    chk.assumptions.add("operands of merge do not alias")


def replay(path):
    import json

    doc = json.load(open(path))
    r = doc.get("replay") or {}
    if r.get("function", "").startswith("sketchnu.countmin._merge_log"):
        import importlib
        import numpy as np

        cm = importlib.import_module("sketchnu.countmin")
        a = r["args"]
        um = a["uint_maxval"]
        dt = np.uint8 if um == 255 else np.uint16
        A, B = np.array([[a["a"]]], dt), np.array([[a["b"]]], dt)
        kern = cm._merge_log8 if um == 255 else cm._merge_log16
        kern(A, B, 1, 1, a["max_count"], um, a["num_reserved"], a["base"], np.zeros(2, np.uint64), np.zeros(2, np.uint64))
        print("merge(%d,%d) -> %d, expected %s" % (a["a"], a["b"], int(A[0, 0]), r["expected"]))
        return 0 if int(A[0, 0]) == r["expected"] else 1
    return _cm.replay_file(path)
