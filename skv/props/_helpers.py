"""Front end B models for sketchnu/helpers.py (C08, C19): queues, processes, the user callback.

Assumed library contracts (listed in the evidence):
  * multiprocessing.Queue delivers every item exactly once, FIFO per producer; put() on a closed
    queue raises ValueError;
  * Process.start() runs target(*args, **kwargs) in another process; join() waits for it;
    exitcode is None while running and the final code afterwards (stable);
  * under the 'spawn' context the arguments of Process must be picklable (generators are not).
Abstraction: a started worker/merge process is executed *synchronously* at start(); this is
justified for parallel_merging by the obligation that the pairs of one round are disjoint and all
are joined before the next round, and for the workers by treating the sequence of items each
worker receives as universally quantified (any split of the item list).
"""
import z3

from .. import glue, pyexec as X
from ..pyexec import Sym, Const, Ref, Arr, Opaque, Builtin, BoundMethod, Unsupported, uid


class HelperExec(glue.Exec):
    """adds: opaque arithmetic (timestamps), queue / process / context objects, callbacks"""

    def binop(self, op, a, b, st):
        if isinstance(a, Opaque) or isinstance(b, Opaque):
            import ast as _ast

            if isinstance(op, (_ast.Div, _ast.FloorDiv, _ast.Mod)) and isinstance(b, (Sym, Const)):
                # an unknown quantity divided by a number: the number may be zero
                try:
                    y, _ = self.num(b)
                except Unsupported:
                    return [("val", Opaque("arith"), st)]
                outs = []
                for cond in (True, False):
                    s2 = st.fork()
                    s2.pc.append(y == 0 if cond else y != 0)
                    if self.feasible(s2):
                        outs.append(("raise", Const(ZeroDivisionError), s2) if cond else ("val", Opaque("arith"), s2))
                return outs
            return [("val", Opaque("arith"), st)]
        return super().binop(op, a, b, st)

    def builtin_method(self, name, selfv, args, kwargs, st):
        f = st.objs[selfv.oid]["fields"] if isinstance(selfv, Ref) else None
        if name == "queue.put":
            if f.get("closed"):
                return [("raise", Const(ValueError), st)]
            f["items"] = f["items"] + (args[0],)
            st.effects.append(("put", selfv.oid, args[0]))
            return [("val", Const(None), st)]
        if name == "queue.get":
            feed = f.get("feed")
            if not feed:
                raise Unsupported("queue.get on an empty modelled queue (worker would block)")
            f["feed"] = feed[1:]
            st.effects.append(("get", selfv.oid, feed[0]))
            return [("val", feed[0], st)]
        if name == "queue.close":
            f["closed"] = True
            st.effects.append(("queue-close", selfv.oid))
            return [("val", Const(None), st)]
        if name == "ctx.Queue":
            return [("val", st.new_obj("$queue", {"items": (), "feed": (), "closed": False}), st)]
        if name == "ctx.Process":
            ref = st.new_obj("$process", {"target": kwargs.get("target"), "args": kwargs.get("args", ()), "kwargs": kwargs.get("kwargs", {}), "started": False, "pid": len([1 for o in st.objs.values() if o["cls"] == "$process"])})
            st.effects.append(("process-new", ref.oid, kwargs.get("target"), kwargs.get("args", ())))
            h = self.hooks.get(("process-new",))
            if h:
                r = h(self, st, ref)
                if r is not None:
                    return r
            return [("val", ref, st)]
        if name == "process.start":
            f["started"] = True
            st.effects.append(("start", selfv.oid))
            h = self.hooks.get(("process-start",))
            if h:
                return h(self, st, selfv)
            return [("val", Const(None), st)]
        if name in ("process.join", "process.kill"):
            st.effects.append((name.split(".")[1], selfv.oid))
            if name == "process.kill":
                f["killed"] = True
            return [("val", Const(None), st)]
        if name == "opaque.call":
            return [("val", Opaque("call"), st)]
        return super().builtin_method(name, selfv, args, kwargs, st)

    def getattr(self, v, attr, st, fn):
        if isinstance(v, Ref):
            c = st.objs[v.oid]["cls"]
            if c == "$queue" and attr in ("put", "get", "close"):
                return [("val", BoundMethod(Builtin("queue." + attr), v), st)]
            if c == "$ctx" and attr in ("Queue", "Process"):
                return [("val", BoundMethod(Builtin("ctx." + attr), v), st)]
            if c == "$process":
                if attr in ("start", "join", "kill"):
                    return [("val", BoundMethod(Builtin("process." + attr), v), st)]
                if attr == "exitcode":
                    h = self.hooks.get(("exitcode",))
                    if h:
                        return h(self, st, v)
                    return [("val", Const(0), st)]
        if isinstance(v, Opaque):
            return [("val", BoundMethod(Builtin("opaque.call"), v), st)]
        return super().getattr(v, attr, st, fn)

    def external(self, f, args, kwargs, st):
        name = getattr(f, "__name__", "")
        if name == "get_context":
            return [("val", st.new_obj("$ctx", {}), st)]
        if name in ("now",) or getattr(f, "__qualname__", "").startswith("datetime"):
            return [("val", Opaque("time"), st)]
        if name == "cpu_count":
            return [("val", Const(2), st)]
        if name == "getLogger":
            return [("val", Opaque("logger"), st)]
        return super().external(f, args, kwargs, st)

    def call(self, f, args, kwargs, st, fn, node=None):
        if isinstance(f, Ref) and st.objs[f.oid]["cls"] == "$callback":
            return self.callback(f, args, kwargs, st)
        return super().call(f, args, kwargs, st, fn, node)

    def callback(self, f, args, kwargs, st):
        """the user's process_q_item: returns a record count >= 0, or raises Exception"""
        cf = st.objs[f.oid]["fields"]
        j = len([e for e in st.effects if e[0] == "callback"])
        st.effects.append(("callback", j, args[0], tuple(args[1:]), dict(kwargs)))
        ok = st.fork()
        t = z3.Int(uid("n_recs"))
        ok.pc += [t >= 0, t < 2**40]  # documented: the callback returns the number of records it processed
        ok.effects.append(("callback-returned", j, t))
        outs = [("val", Sym(t, "int"), ok)]
        if cf.get("may_raise", True):
            bad = st.fork()
            bad.effects.append(("callback-raised", j))
            # an arbitrary exception instance: nothing is known about its arguments
            outs.append(("raise", bad.new_obj("$exc", {"$type": Exception, "args": Opaque("tuple-of-unknown-length")}), bad))
        return outs

    def truth(self, v):
        if isinstance(v, Opaque):
            raise Unsupported("truth of opaque %s" % v.what)
        return super().truth(v)


def shm_attach_hook(ex, st, f, args, kwargs):
    """SharedMemory(name=...) attaches to the block created under that name (same bytes)"""
    create = kwargs.get("create")
    if create is not None and ex.concrete(create):
        return glue._shm(ex, st, f, args, kwargs)
    name = kwargs.get("name", args[0] if args else None)
    for oid, o in st.objs.items():
        if o["cls"] == "$shm" and ex.concrete(o["fields"].get("owner")) and isinstance(name, Sym) and isinstance(o["fields"].get("name"), Sym) and z3.eq(name.t, o["fields"]["name"].t):
            ref = st.new_obj("$shm", {"buf": o["fields"]["buf"], "name": name, "owner": Const(False), "size": o["fields"]["size"]})
            st.effects.append(("shm-attach", ref.oid, name))
            return [("val", ref, st)]
    return glue._shm(ex, st, f, args, kwargs)


def merge_call_hook(ex, st, f, args, kwargs):
    """inside the helpers a call of <sketch>.merge(other) is one abstract step 'self absorbs other'
    (by contract: the merge() rows - every accepting path reaches the family's kernel on the two
    operands' own tables, or other has seen nothing - are obligations of their own)"""
    selfv = getattr(f, "selfref", None)
    other = args[0] if args else None
    if isinstance(selfv, Ref) and isinstance(other, Ref):
        st.effects.append(("merge-call", block_of(st, selfv), block_of(st, other)))
        return [("val", Const(None), st)]
    return None


def make_exec(chk, hooks=None):
    mods = [chk.module(m) for m in ("countmin", "hyperloglog", "heavyhitters", "helpers")]
    hk = dict(glue.HOOKS)
    for cls_ in ("CountMinLinear", "CountMinLog16", "CountMinLog8", "HyperLogLog", "HeavyHitters"):
        hk[("call", cls_ + ".merge")] = merge_call_hook
    hk[("external", "SharedMemory")] = shm_attach_hook
    hk.update(hooks or {})
    return HelperExec(mods, hk)


def block_of(st, sketch_ref):
    """the shared block (buf oid) a sketch's tables live in"""
    f = st.objs[sketch_ref.oid]["fields"]
    for n in ("cms", "registers", "lhh"):
        a = f.get(n)
        if isinstance(a, Arr) and a.buf is not None:
            return a.buf[0]
    return None


def arr_block(a):
    return a.buf[0] if isinstance(a, Arr) and a.buf is not None else None
