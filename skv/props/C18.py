"""C18 - counters saturate at their ceiling; they never wrap around."""
import z3

from . import _cm, _log
from ..lemmas_cm import lemmas_c18
from ..lemmas_log import lemmas_add_log

LINEAR = ["countmin._query_linear", "countmin._add_linear", "countmin._merge_linear"]
LOG = ["countmin._counter2value", "countmin._rand", "countmin._log_counter", "countmin._query_log16", "countmin._query_log8", "countmin._add_log16", "countmin._add_log8", "countmin._merge_log16", "countmin._merge_log8"]


def constructor_rows(chk, only=None):
    """the log constructors hand _find_base their own max_count / num_reserved / ceiling, within the
    ranges of its declared parameter types (no silent truncation at the dispatcher), and let its
    ValueError through (also used by C09: the base the merge kernels decode with)"""
    from .. import glue, pyexec
    from . import _glue, _wrappers

    ex = glue.make_exec(chk)
    for cls in ("CountMinLog16", "CountMinLog8"):
        if ("ctor", cls) in chk.done or (only is not None and cls not in only):
            continue
        chk.done.add(("ctor", cls))
        try:
            a_, objs, bad_ = _glue.good_objects(ex, cls, "fb")
        except pyexec.Unsupported as e:
            chk.undecided.append((cls + ".__init__", "unsupported construct in glue: %s" % e))
            continue
        for ref, st in objs[:1]:
            ks = [e for e in st.effects if e[0] == "kernel" and e[1] == "countmin._find_base"]
            _wrappers.row(chk, cls + ".__init__:calls-_find_base-once", len(ks) == 1, None)
            f = st.objs[ref.oid]["fields"]
            for e in ks:
                _wrappers.args_in_range(chk, cls + ".__init__", e, st.pc)
                ok = all(_wrappers.same_value(chk, st.pc, e[2][pn], f[fn_]) for pn, fn_ in (("max_count", "max_count"), ("num_reserved", "num_reserved"), ("uint_max", "uint_maxval")))
                _wrappers.row(chk, cls + ".__init__:_find_base-gets-own-max_count/num_reserved/ceiling", ok, None)
        verr = [1 for v, s_ in bad_ if _glue.exc_type(s_, v) is ValueError]
        _wrappers.row(chk, cls + ".__init__:ValueError-of-_find_base-propagates", len(verr) >= 1, None)


def run(chk):
    cone = _cm.cone("w-")
    only = _cm.only_strength("w-")
    for q in LINEAR:
        filt = None if q.endswith("_merge_linear") else cone
        chk.kernel(q, clause_filter=filt, replayer=_cm.make_replayer(q, filt, None if filt is None else only))
    for q in LOG:
        chk.kernel(q, replayer=lambda c, bad, tir, contract, q=q: (_log.runtime_search(c, [q], 100)[1] if q in _log.ARGS else None))
    try:
        from . import _hh

        _hh.c18_part(chk)
    except ImportError:
        chk.notes.append("heavy-hitter clauses: see C03/C04 (not part of this run)")
    lem, hy, hm = lemmas_c18()
    for name, hyps, goal in lem:
        chk.prove("lemma:" + name, hyps, goal)
    chk.cover("weak add clauses", hy)
    chk.cover("merge clauses", hm)
    from ..lemmas_log import lemmas_merge_log

    for ceil, tag in ((65535, "log16"), (255, "log8")):
        ls, hyl = lemmas_add_log(ceil, tag)
        for name, hyps, goal in ls + lemmas_merge_log(ceil, tag):
            if ":c18:" in name or "merged-counter>=input" in name:
                chk.prove("lemma:" + name, hyps, goal)
    # canary: without the ceiling in the hypothesis the estimate could drop -> must be refuted
    name, hyps, goal = lem[0]
    chk.prove("canary:c18:add-keeps-any-value", [h for h in hyps if "4294967295 ==" not in str(h) and "== 4294967295" not in str(h)] + [z3.Int("depth") == 1, z3.Int("width") == 1], z3.Int("q2n") == z3.Int("q2"), expect="refuted")
    from . import _glue, _oracle

    _glue.glue_part(chk, ["CountMinLinear", "HeavyHitters"], {"add"}, lambda: _oracle.c01_history(chk, 200))
    # constructors of the log types: _find_base receives max_count / num_reserved / ceiling inside the
    # ranges of its parameter types (no silent truncation at the dispatcher) and propagates ValueError
    from .. import glue, pyexec
    from . import _wrappers

    constructor_rows(chk)
    _cm.crosscheck_linear(chk)
    quick = chk.tier == "quick"
    # constructor clause: _find_base is 200 float Newton steps - outside the verifier's reach
    cases, fails, first = _log.find_base_grid(chk, quick)
    if first:
        chk.violation("countmin._find_base:bounded:ceiling-decodes-to-max_count", {"verdict": "bounded grid check failed", "failures": fails}, first)
    chk.bounded_standin("_find_base: accepted configuration => ceiling decodes to max_count (rel 1e-6), else ValueError", "grid of %d (max_count, num_reserved, counter width) configurations" % cases, cases, fails)
    mc, mf, mfirst = _log.merge_standin(chk, True)
    if mfirst:
        chk.violation("countmin._merge_log:bounded:ceiling", {"verdict": "bounded float stand-in failed"}, mfirst)
    chk.bounded_standin("log merges at and around the ceiling on the real kernels (nearest-counter oracle, never below an input)", "see C09", mc, mf)
    n = 25 if quick else 400
    c1, bad = _cm.runtime_search(chk, LINEAR, n, only=lambda c: not c.startswith("x-") or c in ("x-cells", "x-n_added", "x-n_records") and False)
    c2, bad2 = _log.runtime_search(chk, ["countmin._log_counter", "countmin._add_log16", "countmin._add_log8", "countmin._merge_log16", "countmin._merge_log8"], n)
    for b in (bad, bad2):
        if b:
            chk.violation("countmin:runtime:contracts", {"verdict": "runtime contract check failed"}, b)
    chk.bounded_standin("contract clauses evaluated on random executions near the ceilings", "%d runs" % (c1 + c2), c1 + c2, int(bool(bad)) + int(bool(bad2)))
    chk.notes.append("All machine additions/subtractions that could wrap (uint_maxval - count, min_count + value, stores of 64-bit values into 32/16/8-bit cells) are bit-precise in the kernel VCs. The Python-level caps of CountMinLinear.add / HeavyHitters.add are glue obligations (front end B).")
    chk.assumptions.add("float64 treated as real for the log kernels; convergence of _find_base only checked on a bounded grid")


def replay(path):
    import json

    doc = json.load(open(path))
    r = doc.get("replay") or {}
    if r.get("function", "").endswith("_find_base"):
        import importlib
        import numpy as np

        cm = importlib.import_module("sketchnu.countmin")
        mc, nr, um = r["args"]
        try:
            b = float(cm._find_base(np.uint64(mc), nr, um))
            val = float(cm._counter2value(um, nr, b))
            print("base", b, "decoded ceiling", val, "max_count", mc)
            return 0 if abs(val - mc) <= 1e-6 * mc else 1
        except ValueError:
            print("ValueError (allowed)")
            return 0
    from . import C09

    if r.get("function", "").startswith("sketchnu.countmin._merge_log"):
        return C09.replay(path)
    return _cm.replay_file(path)
