"""C07 - HyperLogLog estimate stays within the HLL++ error envelope of the truth.

The envelope itself is a statistical statement about FastHash and Google's empirical bias tables:
no contract on any call expresses it.  It is *reduced* to C02 (registers = max-rank table of the key
set) and C17 (query = documented estimator of the registers) plus the external HLL++ analysis.
Decided here by proof are the two deterministic clauses of the statement."""
import json
import math
import random

import numpy as np
import z3

from ..contracts.hyperloglog import hll_estimate, CNZ, ESUM
from ..sem import LN

FINISH = {"level": "other", "explanation": "deterministic clauses (empty sketch => 0.0; small n => query <= linear counting of n) proved from the _query contract; the probabilistic envelope is reduced to C02 + C17 + the external HLL++ analysis and only sampled (bounded, statistical)"}


def run(chk):
    for q in ("hyperloglog._linear_counting", "hyperloglog._estimation_function", "hyperloglog._query", "hashes.fasthash64", "hyperloglog._n_leading_zeros64", "hyperloglog._add"):
        chk.kernel(q)  # incl. the hash: the envelope presupposes that distinct keys are hashed by the reference FastHash64
    m, thr, n = z3.Ints("m thr n")
    alpha, res, es = z3.Reals("alpha res esum")
    tag = z3.Int("tag_regs")
    V = m - CNZ(tag)
    est = hll_estimate(m, V, thr, alpha, es, z3.IntVal(1), z3.IntVal(2))
    base = [m > 0, thr >= 0, res == est, CNZ(tag) >= 0, CNZ(tag) <= m]
    # (i) the empty sketch: count_nonzero == 0 (meaning of np.count_nonzero on an all-zero array), ln 1 = 0
    chk.prove("lemma:c07:empty-sketch-estimates-0", base + [CNZ(tag) == 0, LN(z3.RealVal(1)) == 0], res == 0)
    # (ii) n distinct keys touch at most n registers (frame of _add: one register per add), so V >= m - n;
    #      with ln monotone, linear counting of the registers is at most linear counting of n
    W = m - n
    lcn = z3.ToReal(m) * LN(z3.ToReal(m) / z3.ToReal(W))
    x, y = z3.ToReal(m) / z3.ToReal(V), z3.ToReal(m) / z3.ToReal(W)
    mono = z3.Implies(x <= y, LN(x) <= LN(y))
    chk.prove("lemma:c07:small-n:query<=linear-counting(n)", base + [n >= 0, n < m, CNZ(tag) <= n, mono, lcn <= z3.ToReal(thr)], res <= lcn)
    chk.prove("canary:c07:query<linear-counting(n)", base + [n >= 0, n < m, CNZ(tag) <= n, mono, lcn <= z3.ToReal(thr), m == 128, n == 1], res < lcn, expect="refuted")
    # the class level: query() is the kernel on the current registers (constructor constants and
    # tables are C17's rows), also right after an update that follows an earlier query
    from . import C17

    try:
        C17.glue_part(chk, None)
        C17.query_fresh(chk, None)
        C17.tables(chk)
        # the routes by which a sketch of given (p, seed) comes into being keep p, seed and a register
        # array of exactly 2^p entries: save/load (C10's rows) and shared memory (C16's layout rows)
        from . import C10, C16
        from .. import glue

        C10.part(chk, ["HyperLogLog"])
        C16.owner_layout(chk, glue.make_exec(chk), "HyperLogLog", None)
    except Exception as e:  # pyexec.Unsupported
        if type(e).__name__ != "Unsupported":
            raise
        chk.undecided.append(("HyperLogLog glue", "unsupported construct in glue: %s" % e))
    # bounded, statistical: the envelope itself
    hl = chk.module("hyperloglog")
    rng = random.Random(chk.seed + 808)
    k = 8.0
    cases = fails = 0
    first = None
    ps = (7, 10, 13) if chk.tier == "quick" else range(7, 17)
    for p in ps:
        mm = 1 << p
        thrp = float(hl.HyperLogLog(p).threshold)
        for nn in sorted(set([0, 1, 10, int(thrp), int(thrp) + 50, 3 * mm, 5 * mm, 6 * mm, 20 * mm])):
            if nn > 400000 and chk.tier == "quick":
                continue
            for sd in range(2 if chk.tier == "quick" else 10):
                h = hl.HyperLogLog(p, rng.getrandbits(64))
                keys = [(i + 1).to_bytes(8, "little") + bytes([sd]) for i in range(nn)]
                h.update(keys)
                q = float(h.query())
                cases += 1
                ok = (q == 0.0) if nn == 0 else abs(q - nn) <= k * 1.04 / math.sqrt(mm) * nn + 1.0
                if nn and nn < mm // 4:
                    ok = ok and q <= mm * math.log(mm / (mm - nn)) + 1e-9
                if not ok:
                    fails += 1
                    first = first or {"key": "HyperLogLog(p=%d) n=%d" % (p, nn), "observed": q, "expected": "within %.1f x 1.04/sqrt(m) of %d" % (k, nn), "how": "bounded statistical stand-in"}
    if first:
        chk.violation("HyperLogLog:bounded:error-envelope", {"verdict": "statistical stand-in failed", "failures": fails}, first)
    chk.bounded_standin("error envelope k*1.04/sqrt(m), k=8, on real key sets", "p in %s, n on a grid incl. the regime boundaries, %d seeds each" % (list(ps), 2 if chk.tier == "quick" else 10), cases, fails)
    chk.assumptions.add("the probabilistic envelope is NOT decided: it rests on C02, C17 and the external HLL++ analysis; FastHash behaves like a random function")
    chk.assumptions.add("np.count_nonzero of an all-zero array is 0; ln 1 = 0; ln monotone (axiom instances); float64 as real")


def replay(path):
    doc = json.load(open(path))
    print(json.dumps(doc.get("replay") or doc.get("detail"), indent=1)[:2000])
    return 1
