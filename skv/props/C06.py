"""C06 - log counters are exact in the reserved range and unbiased beyond it."""
import z3

from . import _cm, _log
from ..lemmas_log import lemmas_add_log, lemmas_law

KERNELS = ["countmin._counter2value", "countmin._rand", "countmin._log_counter", "countmin._query_log16", "countmin._query_log8", "countmin._add_log16", "countmin._add_log8", "countmin._add_ngram_log16", "countmin._add_ngram_log8", "countmin._merge_log16", "countmin._merge_log8"]


def run(chk):
    for q in KERNELS:
        chk.kernel(q, replayer=lambda c, bad, tir, contract, q=q: (_log.runtime_search(c, [q], 100)[1] if q in _log.ARGS else None))
    for name, hyps, goal in lemmas_law():
        chk.prove("lemma:" + name, hyps, goal)
    for ceil, tag in ((65535, "log16"), (255, "log8")):
        ls, hyl = lemmas_add_log(ceil, tag)
        for name, hyps, goal in ls:
            if ":c06:" in name or "exactly-v" in name:
                chk.prove("lemma:" + name, hyps, goal)
        chk.cover("add clauses (%s)" % tag, hyl)
    from . import _glue, _oracle

    _glue.glue_part(chk, ["CountMinLog16", "CountMinLog8"], {"add", "add_ngram", "query"}, lambda: _oracle.c12_equiv(chk, 60, ["CountMinLog16", "CountMinLog8"]))
    from ..lemmas_log import lemmas_merge_log

    for ceil, tag in ((65535, "log16"), (255, "log8")):
        for name, hyps, goal in lemmas_merge_log(ceil, tag):
            if "exact-sum" in name or "merged-counter>=input" in name:
                chk.prove("lemma:" + name, hyps, goal)  # lower bound min(f, nr+1) survives merges
    # canary: a mis-exponentiated probability (base^+(c-nr)) makes the step biased
    from ..contracts.countmin import DEC
    from ..sem import POW
    from ..lemmas_log import pow_axioms

    base = z3.Real("base")
    c, nr = z3.Ints("c nr")
    x = z3.ToReal(c) - z3.ToReal(nr)
    chk.prove("canary:c06:probability base^+(c-nr) is unbiased", [base > 1, nr >= 0, c > nr] + pow_axioms(base, [x]), POW(base, x) * (DEC(c + 1, nr, base) - DEC(c, nr, base)) == 1, expect="refuted")
    quick = chk.tier == "quick"
    cases, fails, first = _log.one_step_law(chk, quick)
    if first:
        chk.violation("countmin._log_counter:bounded:one-step-law", {"verdict": "bounded float stand-in failed", "failures": fails}, first)
    chk.bounded_standin("one-step law on the real _log_counter: draws just below/at/above base**-(c-nr)", "log8: every counter x %d configurations; log16: every%s counter x %d configurations; 2 pointer positions" % (len(_log.CONFIGS8), " 7th" if quick else "", 2 if quick else len(_log.CONFIGS16)), cases, fails)
    ok = _log.rand_freshness(chk)
    if not ok:
        chk.violation("countmin._rand:bounded:freshness", {"verdict": "bounded check failed"}, {"key": "_rand sequence", "function": "sketchnu.countmin._rand", "expected": "batch[0..2047] in order, then a new batch", "observed": "different", "how": "bounded"})
    chk.bounded_standin("_rand returns batch[0..2047] once each, then refills", "one full batch + refill", 2049, 0 if ok else 1, exhaustive=True)
    mc, mf, mfirst = _log.merge_standin(chk, True)
    if mfirst:
        chk.violation("countmin._merge_log:bounded:nearest-counter", {"verdict": "bounded float stand-in failed"}, mfirst)
    chk.bounded_standin("log merges never below either input / exact in the reserved range (real kernels)", "see C09", mc, mf)
    c2, bad2 = _log.runtime_search(chk, ["countmin._log_counter", "countmin._add_log16", "countmin._add_log8"], 25 if quick else 400)
    if bad2:
        chk.violation("countmin:runtime:contracts", {"verdict": "runtime contract check failed"}, bad2)
    chk.bounded_standin("integer contract clauses evaluated on random executions", "%d runs" % c2, c2, int(bool(bad2)))
    chk.notes.append("(a) exactness up to num_reserved+1: clause w-exact-reserved of _log_counter/_add_log* + decode identity lemma; (b) one-step law: clause x-unit-step (the guard is draw < base^-(c-nr) with the draw being the value _rand returns) + lemmas 'rises by base^(c-nr)' and 'probability*rise == 1'; (c) lower bound on every history: lemma reserved-lower-bound-preserved-by-add (merges: bounded stand-in + reserved-range clause); (d) freshness: _rand contract (next pointer, refill at 2048, frame) - the classes thread rand_ptr (glue obligation).")
    chk.assumptions.add("float64 treated as real; np.random.rand / Generator.random are uniform on [0,1) (assumed contract)")
    chk.assumptions.add("POW axioms b^0=1, b^1=b, b^(x+1)=b*b^x, b^-x*b^x=1 (instances only)")


def replay(path):
    import json

    doc = json.load(open(path))
    r = doc.get("replay") or {}
    if r.get("function", "").endswith("_log_counter") and isinstance(r.get("args"), dict):
        import importlib
        import numpy as np

        cm = importlib.import_module("sketchnu.countmin")
        a = r["args"]
        batch = np.zeros(2048)
        batch[a["rand_ptr"]] = a["draw"]
        got = cm._log_counter(a["counter"], a["num_reserved"], a["uint_maxval"], a["base"], batch, a["rand_ptr"], 1)
        print("observed", [int(got[0]), int(got[1])], "expected", r["expected"])
        return 0 if [int(got[0]), int(got[1])] == r["expected"] else 1
    return _cm.replay_file(path)
