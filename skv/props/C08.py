"""C08 - parallel_add gives the sequential result for every worker count and schedule."""
import itertools
import json
import os
import subprocess
import sys

import z3

from .. import glue, pyexec as X
from ..pyexec import Sym, Const, Ref, Arr, Opaque
from . import _glue, _wrappers, _helpers

FAMS = {"cms": ("CountMinLinear", "cms"), "hh": ("HeavyHitters", "lhh"), "hll": ("HyperLogLog", "registers")}
MERGE_TABLE = {"countmin._merge_linear": ("cms", "other_cms"), "heavyhitters._merge": ("lhh", "other_lhh"), "hyperloglog._merge": ("registers", "other_registers"), "countmin._merge_log16": ("cms", "other_cms"), "countmin._merge_log8": ("cms", "other_cms")}


def row(chk, name, ok, detail=None, found=None):
    _wrappers.row(chk, name, ok, detail, found)


def owners(ex, st, cls, n, tag):
    """n shared sketches of one class with *equal* constructor arguments, created in state st"""
    out = []
    for i in range(n):
        a, objs, _ = _glue.good_objects(ex, cls, tag, shared=True, st=st)
        ref, st = objs[0]
        out.append(ref)
    return out, st


def check_fill_queue(chk, ex, found):
    fn = ex.func("helpers", "_fill_queue")
    for n_items, n_workers in ((1, 1), (3, 2), (2, 3)):
        items = [Sym(z3.Int("item%d" % i), "item") for i in range(n_items)]
        for as_gen in (False, True):
            # 'items may be given as a list or as a generator': a one-shot iterator gives each item once
            st = X.State()
            q = st.new_obj("$queue", {"items": (), "feed": (), "closed": False})
            lq = st.new_obj("$queue", {"items": (), "feed": (), "closed": False})
            arg = st.new_obj("$generator", {"items": tuple(items)}) if as_gen else list(items)
            outs = ex.call_function(fn, [q, arg, Const(n_workers), lq], {}, st)
            name = "_fill_queue[%d items%s,%d workers]" % (n_items, " from a generator" if as_gen else "", n_workers)

            def found(n_items=n_items, n_workers=n_workers, as_gen=as_gen):
                # the real function on in-process queues
                import queue as _q

                helpers = chk.module("helpers")
                src = ["item-%d" % i for i in range(n_items)]
                q_, lq_ = _q.Queue(), _q.Queue()
                try:
                    helpers._fill_queue(q_, (x for x in src) if as_gen else list(src), n_workers, lq_)
                except Exception as e:
                    return {"key": "_fill_queue(%s of %d items, %d workers)" % ("generator" if as_gen else "list", n_items, n_workers), "observed": "raised %s: %s" % (type(e).__name__, e), "expected": "items then pills", "how": "real function, in-process queues"}
                got_ = []
                while not q_.empty():
                    got_.append(q_.get())
                if got_ != src + [None] * n_workers:
                    return {"key": "_fill_queue(%s of %d items, %d workers)" % ("generator" if as_gen else "list", n_items, n_workers), "observed": repr(got_), "expected": repr(src + [None] * n_workers), "how": "real function, in-process queues"}
                return None

            row(chk, name + ":returns", len(outs) == 1 and outs[0].kind == "return", [o.kind for o in outs], found)
            for o in outs:
                got = o.state.objs[q.oid]["fields"]["items"]
                want = items + [None] * n_workers
                ok = len(got) == len(want) and all((w is None and isinstance(g, Const) and g.v is None) or (w is not None and g is w) for g, w in zip(got, want))
                row(chk, name + ":every-item-once-in-order-then-one-pill-per-worker", ok, repr(got), found)


def sketch_tuple(ex, st, refs):
    """what parallel_add sends to a worker: (type, args, shm.name) per sketch"""
    out = []
    for kind, ref in refs:
        f = st.objs[ref.oid]["fields"]
        out.append((Const(kind), f["args"], st.objs[f["shm"].oid]["fields"]["name"]))
    return tuple(out)


def check_worker(chk, ex, found, may_raise, n_items, tag):
    fn = ex.func("helpers", "_worker")
    st = X.State()
    refs = []
    for kind, (cls, _) in FAMS.items():
        o, st = owners(ex, st, cls, 1, "w" + kind)
        refs.append((kind, o[0]))
    items = [Sym(z3.Int("item%d" % i), "item") for i in range(n_items)]
    extra = Sym(z3.Int("item_after_pill"), "item")
    q = st.new_obj("$queue", {"items": (), "feed": tuple(items) + (Const(None), extra), "closed": False})
    lq = st.new_obj("$queue", {"items": (), "feed": (), "closed": False})
    cb = st.new_obj("$callback", {"may_raise": may_raise})
    n0 = len(st.effects)
    outs = ex.call_function(fn, [Const(0), sketch_tuple(ex, st, refs), cb, q, lq], {"batch": Const(7)}, st)
    name = "_worker[%s]" % tag
    row(chk, name + ":terminates-at-the-pill-on-every-path", all(o.kind == "return" for o in outs) and len(outs) == (2 ** n_items if may_raise else 1), [o.kind for o in outs], found)
    for pi, o in enumerate(outs):
        eff = o.state.effects[n0:]
        calls = [e for e in eff if e[0] == "callback"]
        ok = len(calls) == n_items and all(c[2] is items[j] for j, c in enumerate(calls))
        row(chk, "%s:path%d:callback-once-per-item-in-order" % (name, pi), ok, [str(c[2]) for c in calls], found)
        # the callback gets the sketches attached to the parent's blocks, in the documented order, and the kwargs
        for c in calls:
            loc = c[3]
            okc = len(loc) == len(refs)
            for (kind, oref), l in zip(refs, loc):
                okc = okc and isinstance(l, Ref) and o.state.objs[l.oid]["cls"].name == FAMS[kind][0] and _helpers.block_of(o.state, l) == _helpers.block_of(o.state, oref)
            okc = okc and set(c[4].keys()) == {"batch"}
            row(chk, "%s:path%d:callback-gets-attached-sketches" % (name, pi), okc, None, found)
        rets = {e[1]: e[2] for e in eff if e[0] == "callback-returned"}
        total = z3.IntVal(0)
        for j in sorted(rets):
            total = total + rets[j]
        # bookkeeping at the pill: each sketch that has n_added_records gets [1] += n_records, once
        stores = [e for e in eff if e[0] == "arr-store"]
        want_blocks = [_helpers.block_of(o.state, r) for k, r in refs if k in ("cms", "hh")]
        got_blocks = [_helpers.arr_block(e[1]) for e in stores]
        row(chk, "%s:path%d:n_records-stored-once-per-cms/hh-sketch" % (name, pi), sorted(map(str, got_blocks)) == sorted(map(str, want_blocks)), [str(b) for b in got_blocks], found)
        for e in stores:
            arr, idx, val = e[1], e[2], e[3]
            old = z3.Int("elem_%s[1]" % arr.data)
            okidx = ex.concrete(idx) == 1
            row(chk, "%s:path%d:stores-into-n_added_records[1]" % (name, pi), okidx and arr.dtype == "uint64", None, found)
            chk.prove("%s:path%d:n_records==sum-of-successful-returns" % (name, pi), o.state.pc + [total < 2**63], _glue.ex_num(val) == old + total, tag="G")
        left = o.state.objs[q.oid]["fields"]["feed"]
        row(chk, "%s:path%d:nothing-consumed-after-the-pill" % (name, pi), len(left) == 1 and left[0] is extra, None, found)
        if may_raise:
            raised = [e[1] for e in eff if e[0] == "callback-raised"]
            row(chk, "%s:path%d:a-raising-item-contributes-0-and-the-loop-continues" % (name, pi), set(raised) | set(rets) == set(range(n_items)), None, found)


def merge_weights(ex, st, eff, blocks):
    """replay the merge kernel calls on symbolic weights: dst += src; -> (weights, sources used)"""
    w = {b: z3.Int("w_%d" % i) for i, b in enumerate(blocks)}
    used = []
    for e in eff:
        if e[0] == "kernel" and e[1] in MERGE_TABLE:
            d, s = MERGE_TABLE[e[1]]
            db, sb = _helpers.arr_block(e[2][d]), _helpers.arr_block(e[2][s])
        elif e[0] == "merge-call":
            db, sb = e[1], e[2]
        else:
            continue
        if db not in w or sb not in w:
            return None, None
        w[db] = w[db] + w[sb]
        used.append((db, sb))
    return w, used


def pm_oracle(chk, n, kind="hll"):
    """the real parallel_merging on n shared-memory sketches vs merging them in-process"""
    import multiprocessing as mp
    import numpy as np

    hl = chk.module("hyperloglog")
    helpers = chk.module("helpers")
    if kind != "hll":
        cm, hhm = chk.module("countmin"), chk.module("heavyhitters")
        mk = (lambda sm: cm.CountMinLinear(16, 2, shared_memory=sm)) if kind == "cms" else (lambda sm: hhm.HeavyHitters(16, 2, 8, shared_memory=sm))
        sk, want = [], mk(False)
        for i in range(n):
            s_ = mk(True)
            keys = [b"s%d-%d" % (i, j) for j in range(5)]
            s_.update(keys)
            want.update(keys)
            sk.append(s_)
        lq = mp.get_context("spawn").Queue()
        try:
            res = helpers.parallel_merging(list(sk), lq)
            got = int(res.n_added())
        except Exception as e:
            return {"key": "parallel_merging of %d %s sketches" % (n, kind), "observed": "raised %s: %s" % (type(e).__name__, e), "expected": "the merged sketch", "how": "real helpers.parallel_merging (spawned merge workers)"}
        finally:
            res = None
            del sk
        if got != int(want.n_added()):
            return {"key": "parallel_merging of %d shared-memory %s sketches with 5 keys each" % (n, kind), "observed": "n_added() = %d" % got, "expected": "n_added() = %d (every input merged once)" % int(want.n_added()), "how": "real helpers.parallel_merging (spawned merge workers)"}
        return None
    sk, want = [], hl.HyperLogLog(7, 5)
    for i in range(n):
        s_ = hl.HyperLogLog(7, 5, shared_memory=True)
        keys = [b"s%d-%d" % (i, j) for j in range(40)]
        s_.update(keys)
        want.update(keys)
        sk.append(s_)
    lq = mp.get_context("spawn").Queue()
    try:
        res = helpers.parallel_merging(list(sk), lq)
        got = np.array(res.registers).copy()
    except Exception as e:
        return {"key": "parallel_merging of %d HyperLogLog(7, 5) sketches" % n, "observed": "raised %s: %s" % (type(e).__name__, e), "expected": "the merged sketch", "how": "real helpers.parallel_merging (spawned merge workers)"}
    finally:
        res = None
        del sk
    if not np.array_equal(got, want.registers):
        return {"key": "parallel_merging of %d HyperLogLog(7, 5) sketches with 40 distinct keys each" % n, "observed": "%d registers differ from the sketch of all keys" % int((got != want.registers).sum()), "expected": "registers of the sketch fed every key", "how": "real helpers.parallel_merging (spawned merge workers)"}
    return None


def check_parallel_merging(chk, ex, found, kinds=("hll", "cms", "hh")):
    fn = ex.func("helpers", "parallel_merging")
    ns = range(1, 7) if chk.tier == "quick" else range(1, 12)
    for kind in kinds:
        cls = FAMS[kind][0]
        for n in (ns if kind == "hll" else (1, 2, 3, 5)):
            st = X.State()
            refs, st = owners(ex, st, cls, n, "pm")
            lq = st.new_obj("$queue", {"items": (), "feed": (), "closed": False})
            blocks = [_helpers.block_of(st, r) for r in refs]
            n0 = len(st.effects)
            outs = ex.call_function(fn, [list(refs), lq], {}, st)
            name = "parallel_merging[%s,n=%d]" % (kind, n)
            cache_ = {}

            def found(n=n, cache_=cache_, kind=kind):
                if "r" not in cache_:
                    cache_["r"] = pm_oracle(chk, n, kind)
                return cache_["r"]

            row(chk, name + ":returns-a-sketch", len(outs) == 1 and outs[0].kind == "return" and isinstance(outs[0].value, Ref), [o.kind for o in outs], found)
            for o in outs:
                if o.kind != "return":
                    continue
                eff = o.state.effects[n0:]
                w, used = merge_weights(ex, o.state, eff, blocks)
                if w is None:
                    row(chk, name + ":merges-only-the-given-sketches", False, None, found)
                    continue
                res_block = _helpers.block_of(o.state, o.value)
                tot = z3.IntVal(0)
                for i in range(n):
                    tot = tot + z3.Int("w_%d" % i)
                chk.prove(name + ":result-contains-every-input-exactly-once", [], w[res_block] == tot, tag="G")
                srcs = [s for d, s in used]
                row(chk, name + ":no-sketch-merged-twice", len(srcs) == len(set(srcs)) == n - 1 and all(d != s for d, s in used), None, found)
                # rounds: every merge process is joined before the next round starts; pairs of a round are disjoint
                rounds, cur = [], []
                for e in eff:
                    if e[0] == "kernel" and e[1] in MERGE_TABLE:
                        d, s = MERGE_TABLE[e[1]]
                        cur.append((_helpers.arr_block(e[2][d]), _helpers.arr_block(e[2][s])))
                    if e[0] == "merge-call":
                        cur.append((e[1], e[2]))
                    if e[0] == "put" and cur:
                        rounds.append(cur)
                        cur = []
                okr = all(len(set(x for p in r for x in p)) == 2 * len(r) for r in rounds)
                row(chk, name + ":pairs-of-a-round-are-disjoint", okr, None, found)
                starts = [e[1] for e in eff if e[0] == "start"]
                joins = [e[1] for e in eff if e[0] == "join"]
                row(chk, name + ":every-merge-process-is-joined", sorted(starts) == sorted(joins), None, found)


def start_hook(ex, st, pref):
    """synchronous abstraction: a started merge worker runs to completion; the other processes
    (logger, queue filler, workers) are only recorded"""
    f = st.objs[pref.oid]["fields"]
    tgt = f["target"]
    if isinstance(tgt, X.PyFunc) and tgt.name == "_merge_worker":
        outs = ex.call_function(tgt, list(f["args"]), dict(f["kwargs"]), st)
        res = []
        for o in outs:
            if o.kind == "return":
                res.append(("val", Const(None), o.state))
            else:
                o.state.objs[pref.oid]["fields"]["died"] = True
                res.append(("val", Const(None), o.state))
        return res
    return [("val", Const(None), st)]


def check_parallel_add(chk, ex, found):
    fn = ex.func("helpers", "parallel_add")
    combos = [("cms", "hh", "hll"), ("cms",), ("hh", "hll"), ("hll",), ("cms", "hll"), ("cms", "hh"), ("hh",)]
    plans = [(2, c) for c in combos] + [(1, ("cms", "hh", "hll")), (3, ("cms", "hh", "hll"))]
    for n_workers, combo in plans:
        st = X.State()
        kwargs = {"n_workers": Const(n_workers)}
        argsyms = {}
        for kind in combo:
            cls = FAMS[kind][0]
            modname, params = glue.CLASSES[cls]
            d = {}
            for p in params:
                if p == "phi":
                    continue
                d[p] = Sym(z3.Int("%s_pa%s" % (p, kind)), "int")
            if kind == "cms":
                d = {"cms_type": Const("linear"), "width": d["width"], "depth": d["depth"]}
            argsyms[kind] = d
            kwargs["%s_args" % kind] = d
        items = [Sym(z3.Int("item%d" % i), "item") for i in range(3)]
        cb = st.new_obj("$callback", {"may_raise": False})
        n0 = len(st.effects)
        outs = ex.call_function(fn, [list(items), cb], kwargs, st)
        name = "parallel_add[n_workers=%d,%s]" % (n_workers, "+".join(combo))
        rets = [o for o in outs if o.kind == "return"]
        row(chk, name + ":returns", len(rets) >= 1, [o.kind for o in outs][:6], found)
        for o in rets[:1]:
            eff = o.state.effects[n0:]
            val = o.value if isinstance(o.value, tuple) else (o.value,)
            okorder = len(val) == len(combo) and all(isinstance(v, Ref) and o.state.objs[v.oid]["cls"].name in (FAMS[k][0],) for v, k in zip(val, [k for k in ("cms", "hh", "hll") if k in combo]))
            row(chk, name + ":results-in-documented-order", okorder, None, found)
            procs = [e for e in eff if e[0] == "process-new"]
            workers = [e for e in procs if isinstance(e[2], X.PyFunc) and e[2].name == "_worker"]
            fillers = [e for e in procs if isinstance(e[2], X.PyFunc) and e[2].name == "_fill_queue"]
            row(chk, name + ":one-worker-process-per-worker", len(workers) == n_workers, len(workers), found)
            row(chk, name + ":one-filler-with-(queue,items,n_workers,log_queue)", len(fillers) == 1 and len(fillers[0][3]) == 4 and fillers[0][3][1] == items and ex.concrete(fillers[0][3][2]) == n_workers, None, found)
            created = {k: [] for k in combo}
            for e in eff:
                if e[0] == "shm-create":
                    for oid, ob in o.state.objs.items():
                        if isinstance(ob["cls"], X.PyClass) and isinstance(ob["fields"].get("shm"), Ref) and ob["fields"]["shm"].oid == e[1]:
                            for k in combo:
                                if ob["cls"].name == FAMS[k][0]:
                                    created[k].append(oid)
            row(chk, name + ":one-shared-sketch-per-type-per-worker", all(len(v) == n_workers for v in created.values()), {k: len(v) for k, v in created.items()}, found)
            # worker i gets (i, sketches of worker i by (type, args, block name), callback, queue, log_queue)
            okw = True
            for i, wp in enumerate(workers):
                a = wp[3]
                okw = okw and ex.concrete(a[0]) == i and a[2] is cb and len(a[1]) == len(combo)
                for (kind_c, args_c, name_c), k in zip(a[1], [k for k in ("cms", "hh", "hll") if k in combo]):
                    own = o.state.objs[created[k][i]]["fields"]
                    okw = okw and ex.concrete(kind_c) == k and args_c == own["args"] and z3.eq(name_c.t, o.state.objs[own["shm"].oid]["fields"]["name"].t)
            row(chk, name + ":worker-i-gets-its-own-sketches-by-name", okw, None, found)
            started = set(e[1] for e in eff if e[0] == "start")
            row(chk, name + ":all-processes-started", all(e[1] in started for e in procs), None, found)
            for v, k in zip(val, [k for k in ("cms", "hh", "hll") if k in combo]):
                row(chk, "%s:%s-result-is-the-merge-of-all-workers" % (name, k), v.oid == created[k][0], None, found)
                blocks = [_helpers.block_of(o.state, Ref(x)) for x in created[k]]
                w, used = merge_weights(ex, o.state, eff, blocks)
                tot = z3.IntVal(0)
                for i in range(n_workers):
                    tot = tot + z3.Int("w_%d" % i)
                if w is not None:
                    chk.prove("%s:%s-every-worker-sketch-merged-exactly-once" % (name, k), [], w[blocks[0]] == tot, tag="G")
            pills = [e for e in eff if e[0] == "put" and isinstance(e[2], Const) and e[2].v is None]
            row(chk, name + ":logger-gets-its-pill", len(pills) >= 1, None, found)


def pickle_precondition(chk, ex):
    """under 'spawn' the Process arguments are pickled: the documented generator input is not picklable"""
    fn = ex.func("helpers", "parallel_add")
    st = X.State()
    gen = st.new_obj("$generator", {})
    cb = st.new_obj("$callback", {"may_raise": False})
    try:
        outs = ex.call_function(fn, [gen, cb], {"n_workers": Const(2), "hll_args": {"p": Sym(z3.Int("p_g"), "int")}}, st)
    except X.Unsupported as e:
        chk.undecided.append(("parallel_add(generator)", str(e)))
        return
    ok = True
    for o in outs:
        for e in o.state.effects:
            if e[0] == "process-new" and any(isinstance(a, Ref) and o.state.objs[a.oid]["cls"] == "$generator" for a in e[3]):
                ok = False
    name = "parallel_add:process-arguments-are-picklable-for-every-documented-input(list or generator)"
    chk.rows.append({"name": name, "kind": "G", "backend": "pyexec", "result": "proved" if ok else "refuted", "instances": 1, "seconds": 0, "units": 0})
    if not ok:
        chk.violation(name, {"verdict": "refuted", "detail": "a generator given as `items` is passed as a Process argument under the spawn context"}, replay_generator(chk))


GEN_PROG = r'''
import sys, os
sys.path.insert(0, %r)
import warnings; warnings.filterwarnings("ignore")
from sketchnu.helpers import parallel_add
def cb(item, hll, **kw):
    hll.add(item); return 1
def gen():
    for i in range(4): yield b"k%%d" %% i
if __name__ == "__main__":
    try:
        r = parallel_add(gen(), cb, n_workers=2, hll_args={"p": 7})
        print("RESULT", r.query())
    except BaseException as e:
        print("RAISED", type(e).__name__, str(e)[:80])
        os._exit(0)
'''


def replay_generator(chk=None):
    from ..ctx import REPO, VERIF

    d = os.path.join(VERIF, "replay")
    os.makedirs(d, exist_ok=True)
    prog = os.path.join(d, "_c08_generator.py")
    open(prog, "w").write(GEN_PROG % REPO)
    import signal
    import tempfile

    # own session + output to a file: the orphaned logger process must not keep a pipe open
    with tempfile.NamedTemporaryFile("w+", suffix=".out", delete=False) as tf:
        outfn = tf.name
    with open(outfn, "w") as fo:
        pr = subprocess.Popen([sys.executable, prog], stdout=fo, stderr=subprocess.DEVNULL, start_new_session=True)
        try:
            pr.wait(timeout=150)
        except subprocess.TimeoutExpired:
            pass
        try:
            os.killpg(pr.pid, signal.SIGKILL)
        except Exception:
            pass
    out = open(outfn).read() or "TIMEOUT"
    os.unlink(outfn)
    line = [l for l in out.splitlines() if l.startswith(("RAISED", "RESULT", "TIMEOUT"))]
    line = line[-1] if line else out[-200:]
    if line.startswith("RESULT"):
        return None
    return {"key": "F3", "call": "parallel_add(<generator>, cb, n_workers=2, hll_args={'p': 7})", "observed": line, "expected": "items may be given as a list or as a generator", "how": "real run in a subprocess"}


def merge_tree_part(chk, kinds=("hll",)):
    """the library's own merge tree (used by C01..C04: 'merges in any tree' / 'the shape of the merge
    tree' include the tree that parallel_merging builds)"""
    kinds = tuple(k for k in kinds if ("merge-tree", k) not in chk.done)
    for k in kinds:
        chk.done.add(("merge-tree", k))
    if not kinds:
        return
    ex = _helpers.make_exec(chk, {("process-start",): start_hook})
    try:
        check_parallel_merging(chk, ex, None, kinds=tuple(kinds))
    except X.Unsupported as e:
        chk.undecided.append(("helpers.parallel_merging", "unsupported construct in glue: %s" % e))
    chk.assumptions.add("synchronous-process abstraction (see skv/props/_helpers.py); parallel_merging is checked for concrete worker counts (bounded in n, unbounded in contents)")


def partition_part(chk):
    """the queue side of parallel_add (used by C02: 'how the stream is partitioned across sketches'):
    every item is queued once followed by one pill per worker; a worker applies the callback once per
    received item and stops only at the pill"""
    if ("partition",) in chk.done:
        return
    chk.done.add(("partition",))
    ex = _helpers.make_exec(chk, {("process-start",): start_hook})
    for f in (check_fill_queue, lambda c, e, fo: check_worker(c, e, fo, False, 2, "2 items")):
        try:
            f(chk, ex, None)
        except X.Unsupported as e:
            chk.undecided.append(("helpers", "unsupported construct in glue: %s" % e))


def run(chk):
    cache = {}

    def found():
        return None

    ex = _helpers.make_exec(chk, {("process-start",): start_hook})
    chk.done.update({("partition",), ("merge-tree", "hll"), ("merge-tree", "cms"), ("merge-tree", "hh")})
    for f in (check_fill_queue, lambda c, e, fo: check_worker(c, e, fo, False, 2, "2 items"), check_parallel_merging, check_parallel_add):
        try:
            f(chk, ex, found)
        except X.Unsupported as e:
            chk.undecided.append(("helpers", "unsupported construct in glue: %s" % e))
    from . import C15, C16

    C15.merge_glue(chk, ["CountMinLinear", "CountMinLog16", "CountMinLog8", "HyperLogLog", "HeavyHitters"])  # the merges at the end sum tables and both counters
    C16.attach_helper_part(chk, glue.make_exec(chk), found)  # what a worker attaches to is the parent's sketch: same parameters
    pickle_precondition(chk, ex)
    chk.assumptions.update(glue.ASSUMED)
    chk.assumptions.add("ASSUMED: multiprocessing.Queue delivers each item exactly once; Process.start runs the target; SharedMemory by name gives the same bytes; the OS schedules")
    chk.assumptions.add("synchronous-process abstraction (see skv/props/_helpers.py); parallel_merging is checked for concrete worker counts (bounded in n, unbounded in contents)")
    chk.trusted.append("front end B (skv/pyexec.py)")
    chk.notes.append("Composition (lemma, on paper): the queue delivers every item to exactly one worker (assumed), each worker applies the callback once per received item to sketches attached to its own blocks (proved for any received sequence - the split is universally quantified), accounts n_records once per cms/hh sketch at its pill (proved), and parallel_merging merges every worker's sketch exactly once (proved for n = 1..%d by symbolic weights). With the merge lemmas of C01/C02/C03/C04 the merged result satisfies those properties for the whole stream; HLL registers equal the sequential ones (C02), n_added = total multiplicity (merge contracts sum the counters), n_records = sum of the callback's returns." % (6 if chk.tier == "quick" else 11))


def replay(path):
    doc = json.load(open(path))
    r = doc.get("replay") or {}
    if r.get("key") == "F3":
        got = replay_generator()
        print(got)
        return 1 if got else 0
    print(json.dumps(r or doc.get("detail"), indent=1)[:2000])
    return 1
