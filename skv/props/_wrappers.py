"""Glue obligations for the thin class methods around the kernels (front end B):
each public entry point is executed symbolically on an object produced by the real constructor and
its *sequence of kernel calls* is compared with the expected one: the right kernel, the object's own
tables and parameters, arguments inside the parameter types' ranges (dispatcher unboxing), the
kernel's requires clauses, and - for the batch entry points - the same sequence as the loop of
single calls (C12)."""
import z3

from .. import glue, pyexec as X
from ..pyexec import Sym, Const, Ref, Arr
from ..contract import REGISTRY
from . import _glue

INT_RANGE = {"uint8": (0, 255), "uint16": (0, 65535), "uint32": (0, 2**32 - 1), "uint64": (0, 2**64 - 1), "int64": (-(2**63), 2**63 - 1)}

ADD_KERNEL = {"CountMinLinear": "countmin._add_linear", "CountMinLog16": "countmin._add_log16", "CountMinLog8": "countmin._add_log8", "HyperLogLog": "hyperloglog._add", "HeavyHitters": "heavyhitters._add"}
NGRAM_KERNEL = {"CountMinLinear": "countmin._add_ngram_linear", "CountMinLog16": "countmin._add_ngram_log16", "CountMinLog8": "countmin._add_ngram_log8", "HyperLogLog": "hyperloglog._add_ngram", "HeavyHitters": "heavyhitters._add_ngram"}
QUERY_KERNEL = {"CountMinLinear": "countmin._query_linear", "CountMinLog16": "countmin._query_log16", "CountMinLog8": "countmin._query_log8", "HeavyHitters": "heavyhitters._max_count"}


def key_sym(name):
    v = Sym(z3.Int("key_" + name), "bytes")
    return v


def row(chk, name, ok, detail=None, found=None):
    chk.rows.append({"name": name, "kind": "G", "backend": "pyexec", "result": "proved" if ok else "refuted", "instances": 1, "seconds": 0, "units": 0})
    if not ok:
        chk.violation(name, {"verdict": "refuted", "detail": detail}, found() if callable(found) else found)


def same_value(chk, pc, a, b):
    """are two glue values equal (arrays: same object; scalars: provably equal terms)"""
    if isinstance(a, Arr) or isinstance(b, Arr):
        return a is b
    if isinstance(a, Const) and isinstance(b, Const):
        return a.v == b.v
    try:
        x, y = _glue.ex_num(a), _glue.ex_num(b)
    except Exception:
        return False
    if x.sort() != y.sort():
        x = z3.ToReal(x) if z3.is_int(x) else x
        y = z3.ToReal(y) if z3.is_int(y) else y
    s = z3.Solver()
    s.set("rlimit", 5_000_000)
    for f in pc:
        s.add(f)
    s.add(x != y)
    return s.check() == z3.unsat


def kernel_calls(eff):
    return [e for e in eff if e[0] == "kernel"]


def args_in_range(chk, name, eff, pc, found=None):
    """dispatcher unboxing: every scalar argument lies in the declared parameter type's range"""
    _, qual, argmap = eff
    disp = None
    for c in REGISTRY.values():
        pass
    import importlib
    from numba.core import types as nt

    mod, fn = qual.split(".")
    disp = getattr(importlib.import_module("sketchnu." + mod), fn)
    sig = disp.signatures[0]
    pnames = list(disp.py_func.__code__.co_varnames[: disp.py_func.__code__.co_argcount])
    for pn, ty in zip(pnames, sig):
        v = argmap.get(pn)
        if isinstance(ty, nt.Integer) and isinstance(v, (Sym, Const)):
            w_ = int(ty.bitwidth)
            lo, hi = (-(1 << (w_ - 1)), (1 << (w_ - 1)) - 1) if ty.signed else (0, (1 << w_) - 1)
            try:
                t = _glue.ex_num(v)
            except Exception:
                continue
            if z3.is_real(t):
                continue
            chk.prove("%s:arg-in-range:%s:%s" % (name, fn, pn), pc, z3.And(t >= lo, t <= hi), tag="G")
        if isinstance(ty, nt.Array) and isinstance(v, Arr):
            row(chk, "%s:arg-dtype:%s:%s" % (name, fn, pn), str(ty.dtype) == v.dtype and ty.ndim == len(v.shape), "array %s has dtype %s/%dd, kernel expects %s/%dd" % (pn, v.dtype, len(v.shape), ty.dtype, ty.ndim), found)


def own_fields(chk, name, eff, st, sref, pc, expect, found=None):
    """the kernel receives the object's own tables/parameters (as they were before the call);
    `expect` maps the remaining parameters to the expected values"""
    _, qual, argmap = eff
    f = st.objs[sref.oid]["fields"]
    ok, why = True, []
    for pn, v in argmap.items():
        if pn in expect:
            if not same_value(chk, pc, v, expect[pn]):
                ok = False
                why.append("%s is %r, expected %r" % (pn, v, expect[pn]))
            continue
        src = f.get(pn, f.get({"rand_nums": "rand_nums"}.get(pn, pn)))
        if src is None:
            continue
        if not same_value(chk, pc, v, src):
            ok = False
            why.append("%s is not self.%s" % (pn, pn))
    row(chk, "%s:kernel-gets-own-state:%s" % (name, qual.split(".")[-1]), ok, why, found)


def entry_points(chk, ex, clsname, which, found=None):
    """which: subset of {'add','add_ngram','query','getitem','update','update_ngram'}"""
    k1, k2 = key_sym("k1"), key_sym("k2")
    a, objs, _ = _glue.good_objects(ex, clsname, "w")
    if not objs:
        chk.errors.append("constructor of %s has no successful outcome" % clsname)
        return
    sref, st0 = objs[0]
    # the methods are examined on the first successful outcome of the constructor; any further
    # outcome (a library call in the constructor forked) must be the same object up to array identity
    for pi, (r2, s2) in enumerate(objs[1:], 1):
        f0, f2 = st0.objs[sref.oid]["fields"], s2.objs[r2.oid]["fields"]
        diff = [k for k in set(f0) | set(f2) if k not in f0 or k not in f2]
        for k in set(f0) & set(f2):
            x, y = f0[k], f2[k]
            if isinstance(x, Arr) or isinstance(y, Arr):
                if not (isinstance(x, Arr) and isinstance(y, Arr) and x.dtype == y.dtype and len(x.shape) == len(y.shape) and (x.buf is None) == (y.buf is None)):
                    diff.append(k)
            elif isinstance(x, (Sym, Const)) and isinstance(y, (Sym, Const)):
                if not same_value(chk, s2.pc, x, y):
                    diff.append(k)
        if diff:
            chk.undecided.append(("%s constructor" % clsname, "successful constructor path %d differs from path 0 in %s; the methods were examined on path 0 only" % (pi, sorted(diff)[:6])))
    value = Sym(z3.Int("value"), "int")
    ngram = Sym(z3.Int("ngram"), "int")
    # documented input domain: multiplicities 0 <= v < 2^64, n >= 1, hh[key] only for len(key) <= max_key_len
    base = [value.t >= 0, value.t < 2**64, ngram.t >= 1, ngram.t < 2**63, X.BYTESLEN(k1.t) >= 0, X.BYTESLEN(k2.t) >= 0]
    if clsname == "HeavyHitters":
        mkl = st0.objs[sref.oid]["fields"]["max_key_len"]
        base.append(X.BYTESLEN(k1.t) <= mkl.t)
    cap32 = clsname in ("CountMinLinear", "HeavyHitters")

    def run(method, args, st=None):
        s = (st or st0).fork()
        s.pc += base
        return _glue.call_method(ex, s, sref, method, args)

    # the two bookkeeping accessors read the element they are documented to read
    for meth, idx in (("n_added", 0), ("n_records", 1)):
        if st0.objs[sref.oid]["cls"].lookup(meth) is None:
            continue
        outs = run(meth, [])
        arr = st0.objs[sref.oid]["fields"].get("n_added_records")
        ok = bool(outs)
        for o, e in outs:
            # by value: the returned number is provably the element (a cast to its own type is fine)
            want = Sym(z3.Int("elem_%s[%d]" % (arr.data, idx)), "uint64") if isinstance(arr, Arr) else None
            good = o.kind == "return" and want is not None and isinstance(o.value, (Sym, Const)) and same_value(chk, o.state.pc, o.value, want)
            ok = ok and good and not [x for x in e if x[0] in _glue.MUTATING]
        row(chk, "%s.%s():returns-n_added_records[%d]-and-changes-nothing" % (clsname, meth, idx), ok, None, found)

    def single(name, method, args, kernel, expect):
        outs = run(method, args)
        rets = [(o, e) for o, e in outs if o.kind == "return"]
        row(chk, "%s:no-exception" % name, len(rets) == len(outs) and rets, ["%s raised" % _glue.exc_type(o.state, o.value) for o, e in outs if o.kind == "raise"], found)
        for i, (o, e) in enumerate(rets):
            ks = kernel_calls(e)
            kl = kernel if isinstance(kernel, list) else [kernel]
            ok = [k[1] for k in ks] == kl
            kernel = kl[0]
            row(chk, "%s:calls-%s-once" % (name, kernel.split(".")[-1]), ok, [k[1] for k in ks], found)
            if not ok:
                continue
            own_fields(chk, name, ks[0], st0, sref, o.state.pc, expect(o), found)
            args_in_range(chk, name, ks[0], o.state.pc, found)
            _glue.kernel_requires(chk, name, ks[0], o.state, o.state.pc)
        return rets

    C = clsname
    if "add" in which:
        def exp(o):
            d = {"key": k1}
            if C != "HyperLogLog":
                d["value"] = Sym(z3.If(value.t <= 2**32 - 1, value.t, 2**32 - 1), "int") if cap32 else value
            return d

        rets = single("%s.add" % C, "add", [k1, value], ADD_KERNEL[C], exp)
        if C in ("CountMinLog16", "CountMinLog8"):
            for o, e in rets:
                ks = kernel_calls(e)
                sets = [x for x in e if x[0] == "setattr" and x[2] == "rand_ptr"]
                row(chk, "%s.add:threads-rand_ptr" % C, len(sets) == 1 and len(ks) == 1, "self.rand_ptr must be set to the kernel's return value", found)
    if "add_ngram" in which:
        rets = single("%s.add_ngram" % C, "add_ngram", [k1, ngram], NGRAM_KERNEL[C], lambda o: {"key": k1, "ngram": ngram})
        if C in ("CountMinLog16", "CountMinLog8"):
            for o, e in rets:
                ks = kernel_calls(e)
                sets = [x for x in e if x[0] == "setattr" and x[2] == "rand_ptr"]
                row(chk, "%s.add_ngram:threads-rand_ptr" % C, len(sets) == 1 and len(ks) == 1, "self.rand_ptr must be set to the kernel's return value", found)
    if "query" in which and C in QUERY_KERNEL and C != "HeavyHitters":
        qk = [QUERY_KERNEL[C]] + (["countmin._counter2value"] if C != "CountMinLinear" else [])
        single("%s.query" % C, "query", [k1], qk, lambda o: {"key": k1})
    if "getitem" in which and C in QUERY_KERNEL:
        exp = (lambda o: {"key": k1, "key_len": Sym(X.BYTESLEN(k1.t), "int")}) if C == "HeavyHitters" else (lambda o: {"key": k1})
        qk = [QUERY_KERNEL[C]] + (["countmin._counter2value"] if C in ("CountMinLog16", "CountMinLog8") else [])
        single("%s.__getitem__" % C, "__getitem__", [k1], qk, exp)
    # batch entry points equal loops of single calls: identical kernel-call sequences
    def seq_equal(name, batch_outs, loop_steps):
        rets = [(o, e) for o, e in batch_outs if o.kind == "return"]
        row(chk, "%s:no-exception" % name, len(rets) == len(batch_outs) and rets, None, found)
        # reference: the single calls one after the other on a copy, under the path condition of the
        # batch outcome it is compared with (a branch both sides take on the same test - e.g. on the
        # key's length - is then taken the same way)
        def reference(pc):
            s = st0.fork()
            s.pc += base
            s.pc += [f for f in pc if not any(f.eq(g) for g in s.pc)]
            ref_seq = []
            for method, args in loop_steps:
                outs = _glue.call_method(ex, s, sref, method, args)
                outs = [(o, e) for o, e in outs if o.kind == "return" and ex.feasible(o.state)]
                if len(outs) != 1:
                    return None, None
                ref_seq += kernel_calls(outs[0][1])
                s = outs[0][0].state
            return ref_seq, s

        for o, e in rets:
            ref_seq, s = reference(o.state.pc)
            if ref_seq is None:
                chk.undecided.append((name, "reference loop forks"))
                return
            ks = kernel_calls(e)
            ok = len(ks) == len(ref_seq)
            why = []
            if ok:
                for x, y in zip(ks, ref_seq):
                    if x[1] != y[1]:
                        ok = False
                        why.append("%s vs %s" % (x[1], y[1]))
                        break
                    for pn in x[2]:
                        vx, vy = x[2][pn], y[2][pn]
                        if isinstance(vx, Sym) and vx.t.decl().name().startswith("ret_"):
                            continue  # threaded kernel results (rand_ptr): compared by position
                        if not same_value(chk, o.state.pc + s.pc, vx, vy):
                            ok = False
                            why.append("argument %s of %s differs" % (pn, x[1]))
            else:
                why.append("%d kernel calls, loop of single calls makes %d" % (len(ks), len(ref_seq)))
            row(chk, "%s:same-kernel-sequence-as-loop-of-singles" % name, ok, why, found)

    if "update" in which:
        seq_equal("%s.update(list)" % C, run("update", [[k1, k2, k1]]), [("add", [k1]), ("add", [k2]), ("add", [k1])])
        v1, v2 = Sym(z3.Int("v1"), "int"), Sym(z3.Int("v2"), "int")
        s = st0.fork()
        s.pc += [v1.t >= 0, v2.t >= 0]
        d = s.new_obj("$dict", {"$items": [(k1, v1), (k2, v2)]})
        outs = _glue.call_method(ex, s, sref, "update", [d])
        if C == "HyperLogLog":
            seq_equal("%s.update(dict)" % C, outs, [("add", [k1]), ("add", [k2])])
        else:
            st_ = st0
            seq_equal("%s.update(dict)" % C, outs, [("add", [k1, v1]), ("add", [k2, v2])])
    if "update_ngram" in which:
        seq_equal("%s.update_ngram" % C, run("update_ngram", [[k1, k2], ngram]), [("add_ngram", [k1, ngram]), ("add_ngram", [k2, ngram])])


def dict_hooks():
    """abstract dict/list values with a fixed item sequence (for update(dict))"""
    def items(ex, st, ref, attr):
        if attr == "items":
            return [("val", X.BoundMethod(X.Builtin("sdict.items"), ref), st)]
        return None

    def it(ex, st, ref):
        return [k for k, v in st.objs[ref.oid]["fields"]["$items"]]

    return {("getattr", "$dict"): items, ("iter", "$dict"): it}
