"""C17 - query() is the documented HyperLogLog++ estimator of the registers."""
import json
import math
import random

import numpy as np
import z3

from .. import glue, pyexec as X
from ..pyexec import Sym, Const, Ref, Arr
from . import _glue, _wrappers

KERNELS = ["hyperloglog._linear_counting", "hyperloglog._estimation_function", "hyperloglog._query"]


def reference(regs, p, consts):
    """NumPy transcription of the property's formula"""
    thr, raw, bias = consts
    m = 1 << p
    V = int(m - np.count_nonzero(regs))
    alpha = 0.7213 / (1.0 + 1.079 / m)
    E = alpha * m * m / float(np.sum(2.0 ** (-regs.astype(np.float64))))
    if V > 0:
        LC = m * math.log(m / V)
        if LC <= thr[p - 7]:
            return LC
        return E - float(np.interp(E, raw[p - 7], bias[p - 7]))
    if E <= 5 * m:
        return E - float(np.interp(E, raw[p - 7], bias[p - 7]))
    return E


def oracle(chk, quick=True):
    hl = chk.module("hyperloglog")
    hc = chk.module("hll_constants")
    consts = (hc.sub_algorithm_threshold, hc.raw_estimate, hc.bias_data)
    rng = np.random.default_rng(chk.seed + 707)
    n = 0
    for p in range(7, 17):
        m = 1 << p
        arrays = [np.zeros(m, np.uint8), np.full(m, 64 - p + 1, np.uint8)]
        for r in (1, 2, 3, 5):
            arrays.append(np.full(m, r, np.uint8))
        a = np.full(m, 3, np.uint8)
        a[0] = 0
        arrays.append(a)  # single zero register, small raw estimate
        a = np.full(m, 9, np.uint8)
        a[5] = 0
        arrays.append(a)  # single zero register, raw estimate above 5m
        # zero-register counts around the point where linear counting crosses the threshold
        thr = float(consts[0][p - 7])
        vstar = m / math.exp(thr / m)
        for dv in range(-4, 5):
            V = int(vstar) + dv
            if 0 < V < m:
                a = np.ones(m, np.uint8)
                a[:V] = 0
                arrays.append(a)
        # no zero register: raw estimate just below / above 5m
        for r in (2, 3, 4):
            a = np.full(m, r, np.uint8)
            arrays.append(a)
            b = a.copy()
            b[: m // 3] = r + 1
            arrays.append(b)
        for load in ((0.01, 0.5, 3, 30) if quick else (0.01, 0.1, 0.5, 1, 2, 3, 5, 10, 30, 100)):
            k = max(1, int(load * m))
            idx = rng.integers(0, m, k)
            rk = np.minimum(rng.geometric(0.5, k), 64 - p + 1).astype(np.uint8)
            a = np.zeros(m, np.uint8)
            np.maximum.at(a, idx, rk)
            arrays.append(a)
        h = hl.HyperLogLog(p)
        for a in arrays:
            h.registers[:] = a
            want = reference(a, p, consts)
            try:
                got = float(h.query())
            except Exception as e:  # the estimator must answer for every register state
                return n + 1, {"key": "HyperLogLog(p=%d) registers: %d zero, min %d max %d" % (p, int(m - np.count_nonzero(a)), int(a.min()), int(a.max())), "p": p, "zeros": int(m - np.count_nonzero(a)), "observed": "query() raised %s: %s" % (type(e).__name__, e), "expected": want, "how": "bounded oracle: synthetic register arrays vs the property's formula"}
            n += 1
            if not (abs(got - want) <= 1e-9 * max(1.0, abs(want))):
                return n, {"key": "HyperLogLog(p=%d) registers: %d zero, min %d max %d" % (p, int(m - np.count_nonzero(a)), int(a.min()), int(a.max())), "p": p, "zeros": int(m - np.count_nonzero(a)), "observed": got, "expected": want, "how": "bounded oracle: synthetic register arrays vs the property's formula"}
    return n, None


def tables(chk):
    """data obligations on the shipped tables (finite, checked exhaustively)"""
    hc = chk.module("hll_constants")
    thr, raw, bias = hc.sub_algorithm_threshold, hc.raw_estimate, hc.bias_data
    ok_shape = thr.shape == (10,) and raw.shape == (10, 200) and bias.shape == (10, 200)
    _wrappers.row(chk, "tables:shapes (10 precisions x 200 points)", ok_shape, [thr.shape, raw.shape, bias.shape])
    for i in range(10):
        p = i + 7
        _wrappers.row(chk, "tables:raw_estimate[p=%d] strictly increasing" % p, bool(np.all(np.diff(raw[i]) > 0)), None)
        _wrappers.row(chk, "tables:raw[0]-bias[0] == threshold[p=%d] (tables begin where the thresholds end)" % p, abs((raw[i][0] - bias[i][0]) - thr[i]) <= 1e-6 * thr[i], [float(raw[i][0] - bias[i][0]), float(thr[i])])
        # HLL++ appendix: the tables give the raw estimate and its bias at 200 equally spaced true
        # cardinalities, so raw - bias (the corrected estimate at the knots) is an arithmetic
        # progression of integers up to rounding: strictly increasing, neighbouring steps within 1
        knots = raw[i] - bias[i]
        d = np.diff(knots)
        ok_k = bool(np.all(d > 0)) and float(d.max() - d.min()) <= 1.0 + 1e-3
        fnd = None
        if not ok_k:
            # failing input: as many distinct keys as the cardinality the damaged knot stands for
            step = float(np.median(d))
            bad_j = [j for j in range(200) if abs(knots[j] - (knots[0] + j * step)) > 2 + 1e-3 * step]
            bad_j = bad_j or [int(np.argmax(np.abs(d - step)))]

            def fnd(p=p, i=i, j=bad_j[0], step=step, k0=float(knots[0]) if abs(knots[0] - thr[i]) < 2 else float(thr[i])):
                hl = chk.module("hyperloglog")
                n = int(round(k0 + j * step))
                rng = np.random.default_rng(12345)
                for seed in (0, 1, 2):
                    sk = hl.HyperLogLog(p, seed)
                    sk.update([rng.bytes(12) for _ in range(n)])
                    est = float(sk.query())
                    env = 8 * 1.04 / math.sqrt(2**p)
                    if abs(est - n) / n > env:
                        return {"key": "HyperLogLog(p=%d, seed=%d) with %d distinct keys" % (p, seed, n), "observed": est, "expected": "within %.4f relative error of %d" % (env, n), "how": "table row p=%d knot %d is off the calibration grid; that many keys added to the real class" % (p, j)}
                return None

        _wrappers.row(chk, "tables:raw-bias at the knots is an equally spaced increasing sequence (p=%d)" % p, ok_k, [float(d.min()), float(d.max()), int(np.argmax(np.abs(d - np.median(d))))], fnd)
        _wrappers.row(chk, "tables:raw[-1]-bias[-1] == 5*2^p (p=%d)" % p, abs((raw[i][-1] - bias[i][-1]) - 5 * 2**p) <= 1e-6 * 5 * 2**p, [float(raw[i][-1] - bias[i][-1]), 5 * 2**p])


def glue_part(chk, found):
    ex = glue.make_exec(chk)
    a, objs, _ = _glue.good_objects(ex, "HyperLogLog", "q")
    sref, st0 = objs[0]
    f = st0.objs[sref.oid]["fields"]
    p = a["p"].t
    pc = st0.pc
    m = f["m"].t
    chk.prove("HyperLogLog.__init__:7<=p<=16", pc, z3.And(p >= 7, p <= 16), tag="G")
    pw = z3.IntVal(0)
    for e in range(7, 17):
        pw = z3.If(p == e, z3.IntVal(1 << e), pw)
    chk.prove("HyperLogLog.__init__:m==2^p", pc, m == pw, tag="G")
    chk.prove("HyperLogLog.__init__:alpha==0.7213/(1+1.079/m)", pc, f["alpha"].t == z3.Q(7213, 10000) / (1 + z3.Q(1079, 1000) / z3.ToReal(m)), tag="G")
    for fld, tab in (("threshold", "sub_algorithm_threshold"), ("bias_data", "bias_data"), ("raw_estimate", "raw_estimate")):
        org = getattr(f[fld], "origin", None)
        ok = org is not None and org[0] == "table" and org[1] == tab
        _wrappers.row(chk, "HyperLogLog.__init__:%s-is-a-row-of-%s" % (fld, tab), ok, org, found)
        if ok:
            chk.prove("HyperLogLog.__init__:%s-row==p-7" % fld, pc, org[2] == p - 7, tag="G")
    chk.prove("HyperLogLog.__init__:registers.len==m", pc, f["registers"].shape[0] == m, tag="G")
    outs = _glue.call_method(ex, st0.fork(), sref, "query", [])
    for o, e in outs:
        ks = _wrappers.kernel_calls(e)
        ok = o.kind == "return" and len(ks) == 1 and ks[0][1] == "hyperloglog._query"
        _wrappers.row(chk, "HyperLogLog.query:calls-_query-once", ok, [k[1] for k in ks], found)
        if ok:
            _wrappers.own_fields(chk, "HyperLogLog.query", ks[0], st0, sref, o.state.pc, {}, found)
            _glue.kernel_requires(chk, "HyperLogLog.query", ks[0], o.state, o.state.pc)
    chk.assumptions.update(glue.ASSUMED)


def query_fresh_oracle(chk):
    """real class: query(); M; query() against the kernel on the current registers"""
    hl = chk.module("hyperloglog")
    keys = [b"k%d" % i for i in range(40)]
    for meth in ("add", "add_ngram", "update", "update_ngram", "merge"):
        s = hl.HyperLogLog(7, 3)
        s.update(keys[:5])
        s.query()
        if meth == "add":
            for k in keys[5:]:
                s.add(k)
        elif meth == "add_ngram":
            s.add_ngram(b"abcdefghijklmnopqrstuvwxyz0123456789", 3)
        elif meth == "update":
            s.update(keys[5:])
        elif meth == "update_ngram":
            s.update_ngram([b"abcdefghijklmnopqrstuvwxyz0123456789"], 3)
        else:
            o = hl.HyperLogLog(7, 3)
            o.update(keys[5:])
            s.merge(o)
        got = float(s.query())
        want = float(hl._query(s.registers, s.m, s.threshold, s.alpha, s.raw_estimate, s.bias_data))
        if got != want:
            return {"key": "HyperLogLog(7, 3): update(5 keys); query(); %s(more keys); query()" % meth, "observed": got, "expected": want, "how": "real class vs the _query kernel on its current registers"}
    return None


def query_fresh(chk, found):
    if ("hll-query-fresh",) in chk.done:
        return
    chk.done.add(("hll-query-fresh",))
    if found is None:
        cache = {}

        def found():
            if "r" not in cache:
                cache["r"] = query_fresh_oracle(chk)
            return cache["r"]

    """query() answers for the *current* registers: after query(); M; for every mutator M, the next
    query() calls the kernel on the sketch's own registers again (a remembered answer must not
    survive an operation that can change the registers).  Histories of this shape only; together
    with field stability (no method touches the parameters) this is what the statement needs."""
    ex = glue.make_exec(chk)
    a, objs, _ = _glue.good_objects(ex, "HyperLogLog", "qf")
    sref, st0 = objs[0]
    b, others, _ = _glue.good_objects(ex, "HyperLogLog", "qg", st=st0.fork())
    oref, st1 = others[0]
    k1 = _wrappers.key_sym("k1")
    value, ngram = Sym(z3.Int("value"), "int"), Sym(z3.Int("ngram"), "int")
    muts = [("add", [k1, value]), ("add_ngram", [k1, ngram]), ("update", [[k1]]), ("update_ngram", [[k1], ngram]), ("merge", [oref]), ("attach_existing_shm", [Sym(z3.Int("nm"), "str")])]
    st1.pc += [value.t >= 0, value.t < 2**64, ngram.t >= 1, ngram.t < 2**63, X.BYTESLEN(k1.t) >= 0]
    # make the two operands compatible so that merge is accepted
    st1.pc += [a["p"].t == b["p"].t, a["seed"].t == b["seed"].t]
    for o1, e1 in _glue.call_method(ex, st1.fork(), sref, "query", []):
        if o1.kind != "return":
            continue
        for meth, args in muts:
            for o2, e2 in _glue.call_method(ex, o1.state.fork(), sref, meth, args):
                if o2.kind != "return":
                    continue
                outs = _glue.call_method(ex, o2.state.fork(), sref, "query", [])
                ok, why = bool(outs), []
                for o3, e3 in outs:
                    ks = _wrappers.kernel_calls(e3)
                    f3 = o3.state.objs[sref.oid]["fields"]
                    good = o3.kind == "return" and len(ks) == 1 and ks[0][1] == "hyperloglog._query" and ks[0][2].get("registers") is f3.get("registers")
                    if not good:
                        ok = False
                        why.append("%s, kernel calls %s" % (o3.kind, [k[1] for k in ks]))
                _wrappers.row(chk, "HyperLogLog: query(); %s(); query() asks the kernel again on the current registers" % meth, ok, why, found)
    chk.assumptions.update(glue.ASSUMED)


def run(chk):
    cache = {}

    def found():
        if "r" not in cache:
            cache["r"] = oracle(chk)[1]
        return cache["r"]

    chk.default_found = found
    try:
        query_fresh(chk, found)
        from . import C16

        C16.owner_layout(chk, glue.make_exec(chk), "HyperLogLog", None)  # 'every register state': the shared sketch has exactly 2^p registers too
    except X.Unsupported as e:
        chk.undecided.append(("HyperLogLog.query freshness", "unsupported construct in glue: %s" % e))

    for q in KERNELS:
        chk.kernel(q, replayer=lambda c, bad, tir, contract: found())
    try:
        glue_part(chk, found)
    except X.Unsupported as e:
        chk.undecided.append(("HyperLogLog glue", "unsupported construct in glue: %s" % e))
    tables(chk)
    # canary: the estimator with the 4m cut-off is a different function
    from ..contracts.hyperloglog import hll_estimate

    m, V, thr = z3.Ints("m V thr")
    al, es = z3.Reals("alpha esum")
    t1 = hll_estimate(m, V, thr, al, es, z3.IntVal(1), z3.IntVal(2))
    from ..engine import INTERP_FN
    E = al * z3.ToReal(m * m) / es
    t2 = z3.If(V > 0, t1, z3.If(E <= z3.ToReal(4 * m), E - INTERP_FN(E, z3.IntVal(1), z3.IntVal(2)), E))
    chk.prove("canary:c17:cut-off-4m-is-the-same-estimator", [m > 0, es > 0], t1 == t2, expect="refuted")
    n, bad = oracle(chk, chk.tier == "quick")
    if bad:
        chk.violation("HyperLogLog.query:bounded:oracle", {"verdict": "bounded oracle failed"}, bad)
    chk.bounded_standin("query() on synthetic register arrays (all-zero, uniform ranks, all-maximum, single zero register, counts around the threshold crossing, around 5m) and random loads vs the property's formula in NumPy", "p = 7..16, %d arrays, rel tol 1e-9" % n, n, int(bool(bad)))
    chk.assumptions.add("float64 treated as real; np.log, np.interp, np.count_nonzero and ** are named uninterpreted functions (their NumPy meaning is assumed); float side conditions not checked")
    chk.notes.append("The term computed by _query (symbolic execution of the typed IR over reals, callees by contract) is proved equal to the property's piecewise estimator; _estimation_function's loop is proved to compute alpha*m^2/sum(2^-r) (ghost sum); the constructor is proved to set alpha, m = 2^p and to take threshold / raw_estimate / bias_data from row p-7 of the shipped tables; the tables satisfy the stated data obligations.")


def replay(path):
    doc = json.load(open(path))
    print(json.dumps(doc.get("replay") or doc.get("detail"), indent=1)[:2000])
    return 1
