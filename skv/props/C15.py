"""C15 - merging incompatible sketches is refused and changes nothing."""
import itertools
import json

import numpy as np
import z3

from .. import glue, pyexec as X
from ..pyexec import Sym, Const, Ref, Arr
from . import _glue

CM = ["CountMinLinear", "CountMinLog16", "CountMinLog8"]
MERGE_KERNEL = {"CountMinLinear": "countmin._merge_linear", "CountMinLog16": "countmin._merge_log16", "CountMinLog8": "countmin._merge_log8", "HyperLogLog": "hyperloglog._merge", "HeavyHitters": "heavyhitters._merge"}


def incompatible(A, B, a, b):
    """the property's own disjunction, over the constructor arguments"""
    def t(d, k):
        return d[k].t

    if A in CM:
        if A != B:
            return z3.BoolVal(True)  # different counter type
        dis = [t(a, "width") != t(b, "width"), t(a, "depth") != t(b, "depth")]
        if A != "CountMinLinear":
            dis += [t(a, "max_count") != t(b, "max_count"), t(a, "num_reserved") != t(b, "num_reserved")]
        return z3.Or(*dis)
    if A == "HyperLogLog":
        return z3.Or(t(a, "p") != t(b, "p"), t(a, "seed") != t(b, "seed"))
    return z3.Or(t(a, "width") != t(b, "width"), t(a, "depth") != t(b, "depth"), t(a, "max_key_len") != t(b, "max_key_len"))


def check_pair(chk, ex, A, B, phi=(True, True)):
    """phi: for heavy hitters, whether each operand is built with phi=None (phi is not one of the
    property's merge parameters: operands that differ only in phi must merge)"""
    if ("merge", A, B, phi) in chk.done:
        return
    chk.done.add(("merge", A, B, phi))
    name = "%s.merge(%s)" % (A, B)
    if phi != (True, True):
        name += "[phi %s/%s]" % tuple("default" if x else "given" for x in phi)
    a, selfs, _ = _glue.good_objects(ex, A, "a", phi_none=phi[0])
    for sref, st0 in selfs:
        b, others, _ = _glue.good_objects(ex, B, "b", st=st0.fork(), phi_none=phi[1])
        for oref, st1 in others:
            inc = incompatible(A, B, a, b)

            def mfound(pc, goal, a=a, b=b):
                return lambda: model_pair(chk, A, B, a, b, pc, goal) or replay_search(chk, A, B)

            st = st1.fork()
            n_raise = n_ret = 0
            for out, eff in _glue.call_method(ex, st, sref, "merge", [oref]):
                pc = out.state.pc
                muts = [e for e in eff if e[0] in _glue.MUTATING]
                if out.kind == "raise":
                    n_raise += 1
                    et = _glue.exc_type(out.state, out.value)
                    ok = et is TypeError
                    chk.rows.append({"name": "%s:raises-TypeError#%d" % (name, n_raise), "kind": "G", "backend": "pyexec", "result": "proved" if ok else "refuted", "instances": 1, "seconds": 0, "units": 0})
                    if not ok:
                        chk.violation("%s:raises-TypeError" % name, {"verdict": "refuted", "detail": "merge of incompatible operands raises %s instead of TypeError" % getattr(et, "__name__", et), "path_condition": [str(f) for f in pc[-6:]]}, replay_search(chk, A, B))
                    ok2 = not muts
                    chk.rows.append({"name": "%s:refusal-changes-nothing#%d" % (name, n_raise), "kind": "G", "backend": "pyexec", "result": "proved" if ok2 else "refuted", "instances": 1, "seconds": 0, "units": 0})
                    if not ok2:
                        chk.violation("%s:refusal-changes-nothing" % name, {"verdict": "refuted", "detail": "effects before the raise: %s" % [e[0] for e in muts]}, replay_search(chk, A, B))
                    chk.prove("%s:refused=>incompatible#%d" % (name, n_raise), pc, inc, tag="G", found=mfound(pc, inc))
                else:
                    n_ret += 1
                    chk.prove("%s:accepted=>compatible#%d" % (name, n_ret), pc, z3.Not(inc), tag="G", found=mfound(pc, z3.Not(inc)))
                    ks = [e for e in eff if e[0] == "kernel"]
                    ok = len(ks) == 1 and ks[0][1] == MERGE_KERNEL[A]
                    if not ks and not muts:
                        # a path that returns without touching anything is fine when it is taken only
                        # for an `other` that has seen nothing at all: n_added() == 0 and n_records() == 0
                        # (then its table is all zero - class invariant of the add paths, assumed)
                        onr = out.state.objs[oref.oid]["fields"].get("n_added_records")
                        if isinstance(onr, Arr):
                            e0, e1 = z3.Int("elem_%s[0]" % onr.data), z3.Int("elem_%s[1]" % onr.data)
                            s_ = z3.Solver()
                            s_.set("rlimit", 5_000_000)
                            for f_ in pc:
                                s_.add(f_)
                            s_.add(z3.Not(z3.And(e0 == 0, e1 == 0)))
                            if s_.check() == z3.unsat:
                                chk.assumptions.add("a sketch with n_added() == 0 and n_records() == 0 has an all-zero table (class invariant of the add paths, not proved): merge() may skip it")
                                chk.rows.append({"name": "%s:untouched-only-for-an-empty-other#%d" % (name, n_ret), "kind": "G", "backend": "pyexec+z3", "result": "proved", "instances": 1, "seconds": 0, "units": 0})
                                continue
                    chk.rows.append({"name": "%s:calls-merge-kernel#%d" % (name, n_ret), "kind": "G", "backend": "pyexec", "result": "proved" if ok else "refuted", "instances": 1, "seconds": 0, "units": 0})
                    if not ok:
                        chk.violation("%s:calls-merge-kernel" % name, {"verdict": "refuted", "detail": [e[:2] for e in ks]}, replay_search(chk, A, B))
                        continue
                    # the kernel operates on the two operands' own tables and parameters
                    am = ks[0][2]
                    sf = out.state.objs[sref.oid]["fields"]
                    of = out.state.objs[oref.oid]["fields"]
                    binding = []
                    for pn, v in am.items():
                        if pn.startswith("other_"):
                            src = of.get(pn[len("other_"):], of.get({"other_registers": "registers"}.get(pn)))
                        else:
                            src = sf.get(pn)
                        if isinstance(v, Arr) and isinstance(src, Arr):
                            binding.append(v is src)
                    okb = all(binding) and len(binding) >= 2
                    chk.rows.append({"name": "%s:kernel-operands-are-own-tables#%d" % (name, n_ret), "kind": "G", "backend": "pyexec", "result": "proved" if okb else "refuted", "instances": 1, "seconds": 0, "units": 0})
                    if not okb:
                        chk.violation("%s:kernel-operands-are-own-tables" % name, {"verdict": "refuted"}, replay_search(chk, A, B))
                    _glue.kernel_requires(chk, name, ks[0], out.state, pc)
            if n_raise + n_ret == 0:
                chk.errors.append("no outcome for %s" % name)


def configs():
    import numpy as np

    base = {"CountMinLinear": dict(width=7, depth=3), "CountMinLog16": dict(width=7, depth=3, max_count=2**32 - 1, num_reserved=1023), "CountMinLog8": dict(width=7, depth=3, max_count=2**32 - 1, num_reserved=15), "HyperLogLog": dict(p=8, seed=5), "HeavyHitters": dict(width=5, depth=2, max_key_len=4)}
    var = {"width": [8], "depth": [4], "max_count": [2**32 - 2, 4 * 10**9, 2**40], "num_reserved": [14, 1022, 3], "p": [9], "seed": [6, 2**63 + 5, 1700000000, 1700000001, 2**63 + 6], "max_key_len": [5]}
    out = {}
    for cls, b in base.items():
        lst = [dict(b)]
        for k, vs in var.items():
            if k in b:
                for v in vs:
                    if k == "num_reserved" and v >= (255 if cls == "CountMinLog8" else 65535):
                        continue
                    d = dict(b)
                    d[k] = v
                    if d not in lst:
                        lst.append(d)
        out[cls] = lst
    return out


def build(chk, cls, cfg):
    mod = {"HyperLogLog": "hyperloglog", "HeavyHitters": "heavyhitters"}.get(cls, "countmin")
    return getattr(chk.module(mod), cls)(**cfg)


def snapshot(s):
    import numpy as np

    out = {}
    for n in ("cms", "n_added_records", "registers", "lhh", "lhh_count", "key_lens"):
        if hasattr(s, n):
            out[n] = np.array(getattr(s, n)).copy()
    return out


def same(a, b):
    import numpy as np

    return a.keys() == b.keys() and all(np.array_equal(a[k], b[k]) for k in a)


MERGE_PARAMS = {"CountMinLinear": ["width", "depth"], "CountMinLog16": ["width", "depth", "max_count", "num_reserved"], "CountMinLog8": ["width", "depth", "max_count", "num_reserved"], "HyperLogLog": ["p", "seed"], "HeavyHitters": ["width", "depth", "max_key_len"]}


def try_pair(chk, ca, a, cb, b, how, records_only=False, high=False, empty_self=False):
    """run merge on the real classes for one ordered pair of configurations -> failing-input dict / None
    (records_only: the other operand has seen records without elements - n_records > 0, n_added == 0)"""
    try:
        x, y = build(chk, ca, a), build(chk, cb, b)
    except (ValueError, TypeError, MemoryError, OverflowError):
        return None
    for s in (x, y):
        if empty_self and s is x:
            continue  # the receiving sketch has seen nothing yet (e.g. a worker whose items all failed)
        if records_only and s is y:
            if hasattr(s, "n_added_records"):
                s.n_added_records[1] += 4  # as helpers._worker books processed records
            continue
        s.add(b"k1")
        s.add(b"k2")
        if empty_self and hasattr(s, "n_added_records"):
            s.n_added_records[1] += 3
    if high and hasattr(x, "cms"):
        # counters far above the reserved range whose sum overflows the counter type
        top = int(np.iinfo(x.cms.dtype).max)
        x.cms.flat[0] = (top * 200) // 255
        y.cms.flat[0] = (top * 60) // 255
    sx, sy = snapshot(x), snapshot(y)
    compatible = ca == cb and all(a.get(k) == b.get(k) for k in MERGE_PARAMS[ca])
    expect = None
    if compatible:
        # what the family's merge kernel makes of the two operands (on copies)
        try:
            mod = chk.module({"HyperLogLog": "hyperloglog", "HeavyHitters": "heavyhitters"}.get(ca, "countmin"))
            kern = getattr(mod, MERGE_KERNEL[ca].split(".")[1])
            code = kern.py_func.__code__
            expect, args = {}, []
            for n in code.co_varnames[: code.co_argcount]:
                other = n.startswith("other_")
                v = getattr(y if other else x, n[6:] if other else n)
                if isinstance(v, np.ndarray):
                    v = np.array(v).copy()
                    if not other:
                        expect[n] = v
                args.append(v)
            kern(*args)
        except Exception:
            expect = None
    try:
        x.merge(y)
        raised = None
    except Exception as e:
        raised = type(e).__name__
    bad = None
    if compatible and raised is not None:
        bad = "compatible sketches refused (%s)" % raised
    if not compatible and raised != "TypeError":
        bad = "incompatible sketches: %s" % ("merge accepted" if raised is None else "raised %s instead of TypeError" % raised)
    if not compatible and (not same(sx, snapshot(x)) or not same(sy, snapshot(y))):
        bad = (bad or "") + " operands modified"
    if compatible and raised is None and expect:
        after = snapshot(x)
        diff = [n for n, v in expect.items() if n in after and not np.array_equal(after[n], v)]
        if diff:
            bad = "after merge() %s differ(s) from what the merge kernel %s makes of the two operands" % (diff, MERGE_KERNEL[ca])
    if compatible and raised is None and "n_added_records" in sx:
        want = [(int(sx["n_added_records"][i]) + int(sy["n_added_records"][i])) % 2**64 for i in (0, 1)]
        got = [int(v) for v in snapshot(x)["n_added_records"][:2]]
        if want != got:
            bad = "after merge n_added/n_records are %s, the sums are %s" % (got, want)
    if bad:
        return {"key": "%s(%s).merge(%s(%s))" % (ca, a, cb, b), "self": [ca, a], "other": [cb, b], "observed": bad, "expected": "TypeError and unchanged operands" if not compatible else "merge succeeds", "how": how}
    return None


def model_pair(chk, A, B, a, b, pc, goal):
    """replay of a refuted merge obligation: the solver's counterexample (small values preferred)
    gives the two constructor argument sets; merge is then run on the real classes"""
    small = []
    for d in (a, b):
        for k, v in d.items():
            if isinstance(v, Sym) and z3.is_int(v.t):
                small.append(z3.And(v.t >= 1, v.t <= (12 if k in ("p", "depth", "max_key_len") else 4096)))
    for extra in (small, []):
        s = z3.Solver()
        s.set("timeout", 20000)
        for h in pc:
            s.add(h)
        s.add(z3.Not(goal))
        for f in extra:
            s.add(f)
        if s.check() != z3.sat:
            continue
        m = s.model()
        cfgs = []
        for d in (a, b):
            cfg = {}
            for k, v in d.items():
                if not isinstance(v, Sym):
                    continue
                val = m.eval(v.t, model_completion=True)
                if z3.is_int_value(val):
                    cfg[k] = val.as_long()
                elif z3.is_rational_value(val):
                    cfg[k] = float(val.numerator_as_long()) / float(val.denominator_as_long())
                else:
                    break
            cfgs.append(cfg)
        if any(v > 10**7 for c in cfgs for k, v in c.items() if k in ("width", "depth", "max_key_len")) or any(c.get("p", 8) > 16 for c in cfgs):
            continue  # would not fit in memory
        r = try_pair(chk, A, cfgs[0], B, cfgs[1], "solver counterexample of the merge obligation, run on the real classes")
        if r:
            return r
    return None


def replay_search(chk, A=None, B=None):
    """bounded search on the real classes: every ordered pair of a configuration grid per family"""
    cf = configs()
    fams = [CM, ["HyperLogLog"], ["HeavyHitters"]]
    for fam in fams:
        items = [(c, cfg) for c in fam for cfg in cf[c]]
        for (ca, a), (cb, b) in itertools.product(items, items):
            if A is not None and (ca != A or cb != B):
                continue
            r = try_pair(chk, ca, a, cb, b, "bounded grid on the real classes")
            if r:
                return r
            if ca == cb and a == b:
                r = try_pair(chk, ca, a, cb, b, "bounded grid on the real classes (other operand: records without elements)", records_only=True)
                if r:
                    return r
                r = try_pair(chk, ca, a, cb, b, "bounded grid on the real classes (counters whose sum overflows the counter type)", high=True)
                if r:
                    return r
                r = try_pair(chk, ca, a, cb, b, "bounded grid on the real classes (empty receiving sketch, other operand with records)", empty_self=True)
                if r:
                    return r
    return None


def factory_rows(chk, ex, only=None):
    """the CountMin() factory builds, for every counter type, the sketch its class constructor builds
    from the same arguments (num_reserved given or left out) - so that the parameters merge() compares
    are the ones the caller asked for"""
    fac = ex.func("countmin", "CountMin")
    for ctype, cls in (("linear", "CountMinLinear"), ("log16", "CountMinLog16"), ("log8", "CountMinLog8")):
        if only is not None and cls not in only:
            continue
        if ("factory", cls) in chk.done:
            continue
        chk.done.add(("factory", cls))
        for given in ((True, False) if cls != "CountMinLinear" else (False,)):
            tagn = "CountMin(%r%s)" % (ctype, ", num_reserved given" if given else "")
            w, d, mc, nr = (Sym(z3.Int(n + "_f"), "int") for n in ("width", "depth", "max_count", "num_reserved"))
            st = X.State()
            kwargs = {"cms_type": Const(ctype), "width": w, "depth": d}
            direct = {"width": w, "depth": d}
            if cls != "CountMinLinear":
                kwargs["max_count"] = direct["max_count"] = mc
                if given:
                    kwargs["num_reserved"] = direct["num_reserved"] = nr
            fouts = [o for o in ex.call_function(fac, [], dict(kwargs), st.fork()) if o.kind == "return"]
            direct["shared_memory"] = Const(False)
            douts = [(k, v, s_) for k, v, s_ in ex.instantiate(ex.cls("countmin", cls), [], dict(direct), st.fork()) if k == "val"]
            ok = bool(fouts) and bool(douts)
            why = []
            for fo in fouts:
                if not (isinstance(fo.value, Ref) and fo.state.objs[fo.value.oid]["cls"].name == cls):
                    ok = False
                    why.append("class")
                    continue
                ff = fo.state.objs[fo.value.oid]["fields"]
                # some direct-constructor outcome has the same path condition family: compare fields
                match = False
                for k, dv, ds in douts:
                    df = ds.objs[dv.oid]["fields"]
                    same = True
                    for pn in MERGE_PARAMS[cls] + ["uint_maxval"]:
                        x, y = ff.get(pn), df.get(pn)
                        if x is None or y is None:
                            same = False
                            break
                        s2 = z3.Solver()
                        s2.set("rlimit", 5_000_000)
                        for f_ in fo.state.pc:
                            s2.add(f_)
                        s2.add(_glue.ex_num(x) != _glue.ex_num(y))
                        if s2.check() != z3.unsat:
                            same = False
                            why.append(pn)
                            break
                    match = match or same
                ok = ok and match
            chk.rows.append({"name": tagn + ":builds-what-the-class-constructor-builds", "kind": "G", "backend": "pyexec+z3", "result": "proved" if ok else "refuted", "instances": 1, "seconds": 0, "units": 0})
            if not ok:
                def fnd(ctype=ctype, cls=cls, given=given):
                    cm = chk.module("countmin")
                    for nrv, mcv in ((0, 2**32 - 1), (1, 2**32 - 1), (7, 2**32 - 1), (7, 100000), (3, 2**40)):
                        try:
                            a_ = cm.CountMin(ctype, 5, 2, mcv, nrv) if given else cm.CountMin(ctype, 5, 2, mcv)
                            b_ = getattr(cm, cls)(5, 2, mcv, nrv) if given else getattr(cm, cls)(5, 2, mcv)
                        except Exception:
                            continue
                        for pn in MERGE_PARAMS[cls]:
                            if int(getattr(a_, pn)) != int(getattr(b_, pn)):
                                return {"key": "CountMin(%r, 5, 2, %d, %d).%s" % (ctype, mcv, nrv, pn), "observed": int(getattr(a_, pn)), "expected": int(getattr(b_, pn)), "how": "factory vs class constructor on the real code"}
                    return None
                chk.violation(tagn + ":builds-what-the-class-constructor-builds", {"verdict": "refuted", "detail": "differs in %s" % sorted(set(why))}, fnd())


def merge_glue(chk, classes):
    """the merge() methods of the given classes (same-class pairs): used by the properties whose
    statement quantifies over merges (C02, C03, C09) - every accepting path calls the family's merge
    kernel exactly once on the two operands' own tables, with the kernel's requires satisfied"""
    ex = glue.make_exec(chk)
    for A in classes:
        # heavy hitters: with and without an explicit phi on either side (a loaded sketch carries an
        # explicit phi; phi is not a merge parameter)
        for phi in ([(True, True)] if A != "HeavyHitters" else [(True, True), (False, False), (True, False), (False, True)]):
            try:
                check_pair(chk, ex, A, A, phi)
            except X.Unsupported as e:
                chk.undecided.append(("%s.merge(%s)" % (A, A), "unsupported construct in glue: %s" % e))
    chk.assumptions.update(glue.ASSUMED)


def run(chk):
    ex = glue.make_exec(chk)
    pairs = [(a, b) for a in CM for b in CM] + [("HyperLogLog", "HyperLogLog"), ("HeavyHitters", "HeavyHitters")]
    for A, B in pairs:
        for phi in ([(True, True)] if A != "HeavyHitters" else [(True, True), (False, False), (True, False), (False, True)]):
            try:
                check_pair(chk, ex, A, B, phi)
            except X.Unsupported as e:
                chk.undecided.append(("%s.merge(%s)" % (A, B), "unsupported construct in glue: %s" % e))
    try:
        factory_rows(chk, ex)
    except X.Unsupported as e:
        chk.undecided.append(("CountMin factory", "unsupported construct in glue: %s" % e))
    ex2 = glue.make_exec(chk, {("call", "HeavyHitters.generate_candidate_set"): glue._stub_gcs})
    try:
        _glue.field_stability(chk, ex2)
    except X.Unsupported as e:
        chk.undecided.append(("field stability", "unsupported construct in glue: %s" % e))
    # bounded stand-in: the grid on the real classes
    found = replay_search(chk)
    n = sum(len(v) for v in configs().values())
    if found:
        chk.violation("merge:bounded-grid", {"verdict": "bounded grid check failed"}, found)
    chk.bounded_standin("every ordered pair of a configuration grid per family on the real classes (TypeError + operands unchanged / compatible pairs merge)", "%d configurations (each differing from a base configuration in one parameter, incl. near-equal max_count / num_reserved)" % n, n * n, int(bool(found)))
    chk.assumptions.update(glue.ASSUMED)
    chk.assumptions.add("_find_base returns a base > 1 or raises ValueError (assumed contract; bounded stand-in in C18)")
    chk.notes.append("class invariant: no public method reassigns a parameter field (rows '...:does-not-reassign-parameter-fields'), so the two symbolic operands - outcomes of the real constructors - stand for every reachable pair of sketches")
    chk.trusted.append("front end B (skv/pyexec.py): symbolic execution of the Python subset, re-parsed from the tree under test every run")
    chk.notes.append("For each class pair the real merge() is executed symbolically on two objects produced by symbolically executing the real constructors; every outcome is classified: a raising path raises TypeError, performs no store/kernel call first and implies the property's incompatibility disjunction; a returning path implies compatibility, calls exactly the family's merge kernel on the two operands' own tables and satisfies the kernel's requires clauses (shapes equal => in-bounds).")


def replay(path):
    import sys
    import importlib

    doc = json.load(open(path))
    r = doc.get("replay")
    if not r:
        print("no failing input recorded:", doc.get("obligation"))
        return 1

    class C:
        def module(self, m):
            return importlib.import_module("sketchnu." + m)

    c = C()
    x, y = build(c, *r["self"]), build(c, *r["other"])
    try:
        x.merge(y)
        print("merge accepted")
        return 1 if r["self"] != r["other"] else 0
    except Exception as e:
        print("raised", type(e).__name__)
        return 0 if (type(e) is TypeError and r["self"] != r["other"]) else 1
