"""C13 - query(k, threshold) is the exact, fresh top-k of the sketch's stored counts."""
import itertools
import json

import z3

from .. import glue, pyexec as X
from ..pyexec import Sym, Const, Ref, Arr
from . import _glue, _wrappers, _oracle, _hh
from ..lemmas_hh import lemmas_c03

MAXC = z3.Function("MAXC", z3.IntSort(), z3.IntSort())  # _max_count as a function of the key identity (tables fixed)


def maxcount_hook(ex, st, f, args, kwargs):
    names = ["lhh", "lhh_count", "key_lens", "width", "depth", "max_key_len", "key", "key_len"]
    am = dict(zip(names, args))
    st.effects.append(("kernel", "heavyhitters._max_count", am))
    key = am["key"]
    t = MAXC(key.t)
    st.pc += [t >= 0, t <= 2**32 - 1]
    return [("val", Sym(t, "uint32"), st)]


def concrete_hh(ex, w, d, mkl):
    cls = ex.cls("heavyhitters", "HeavyHitters")
    st = X.State()
    outs = ex.instantiate(cls, [Const(w), Const(d), Const(mkl)], {}, st)
    good = [(v, s) for k, v, s in outs if k == "val"]
    return good[0]


def check_gcs(chk, ex, found):
    """generate_candidate_set on concrete small shapes, symbolic contents (bounded in shape only)"""
    shapes = [(1, 1, 2), (2, 1, 2), (1, 2, 2), (2, 2, 1)] if chk.tier == "quick" else [(1, 1, 2), (2, 1, 2), (1, 2, 2), (2, 2, 1), (3, 1, 1), (1, 3, 1), (3, 2, 1)]
    for w, d, mkl in shapes:
        name = "generate_candidate_set[width=%d,depth=%d]" % (w, d)
        sref, st0 = concrete_hh(ex, w, d, mkl)
        thr = Sym(z3.Int("thr"), "int")
        st = st0.fork()
        st.pc += [thr.t >= 0, thr.t <= 2**32 - 1]
        f0 = st.objs[sref.oid]["fields"]
        cnt, lhh = f0["lhh_count"], f0["lhh"]
        outs = _glue.call_method(ex, st, sref, "generate_candidate_set", [thr])
        rets = [(o, e) for o, e in outs if o.kind == "return"]
        _wrappers.row(chk, name + ":no-exception", len(rets) == len(outs) and rets, None, found)
        cells = list(itertools.product(range(d), range(w)))
        cnt_t = {c: z3.Int("elem_%s[%d,%d]" % (cnt.data, c[0], c[1])) for c in cells}
        kl = f0["key_lens"]
        key_t = {c: X.cellkey(lhh.data, list(c), z3.Int("elem_%s[%d,%d]" % (kl.data, c[0], c[1]))) for c in cells}  # bytes of the cell cut at its stored length
        for i, (o, e) in enumerate(rets):
            f = o.state.objs[sref.oid]["fields"]
            cs = f.get("candidate_set")
            okc = isinstance(cs, Ref) and o.state.objs[cs.oid]["cls"] == "$counter"
            _wrappers.row(chk, "%s:candidate_set-is-a-Counter" % name, okc, None, found)
            if not okc:
                continue
            ent = o.state.objs[cs.oid]["fields"]["$entries"]
            pc = o.state.pc
            for c in cells:
                x = key_t[c]
                present = z3.Or(*[z3.And(cnt_t[c2] != 0, key_t[c2] == x) for c2 in cells])
                want = z3.If(z3.And(present, MAXC(x) >= thr.t), MAXC(x), 0)
                chk.prove("%s:path%d:cell%s:entry==(max over rows if >= threshold else absent)" % (name, i, list(c)), pc, glue.counter_lookup(ent, x) == want, tag="G")
            # every stored entry belongs to some non-empty cell
            prov = True
            for k_, v_ in ent:
                prov = prov and any(z3.eq(z3.simplify(k_), z3.simplify(key_t[c])) for c in cells)
            _wrappers.row(chk, "%s:path%d:only-stored-identities" % (name, i), prov, None, found)
            # kernel calls: own tables, key of the cell, its stored length
            for kc in _wrappers.kernel_calls(e):
                if kc[1] != "heavyhitters._max_count":
                    _wrappers.row(chk, name + ":only-_max_count-is-called", False, kc[1], found)
                    continue
                am = kc[2]
                okk = am["lhh"] is lhh and am["lhh_count"] is cnt and am["key_lens"] is f0["key_lens"]
                _wrappers.row(chk, "%s:path%d:_max_count-on-own-tables" % (name, i), okk, None, found)
            # bookkeeping of what the cache was built for
            chk.prove("%s:path%d:records-threshold" % (name, i), pc, _glue.ex_num(f["threshold_sort"]) == thr.t, tag="G")
            na = f.get("n_added_sort")
            okn = isinstance(na, Sym) and "elem_" in str(na.t) and str(na.t).endswith("[0]")
            _wrappers.row(chk, "%s:path%d:records-n_added" % (name, i), okn, str(getattr(na, "t", na)), found)


def check_gcs_default(chk, ex, found):
    """generate_candidate_set(None) records floor(phi * n_added) as its threshold"""
    sref, st0 = concrete_hh(ex, 1, 1, 2)
    f0 = st0.objs[sref.oid]["fields"]
    outs = _glue.call_method(ex, st0.fork(), sref, "generate_candidate_set", [])
    nad = z3.Int("elem_%s[0]" % f0["n_added_records"].data)
    for i, (o, e) in enumerate(outs):
        if o.kind != "return":
            _wrappers.row(chk, "generate_candidate_set(None):path%d:no-exception" % i, _glue.exc_type(o.state, o.value) is OverflowError, None, found)
            continue
        f = o.state.objs[sref.oid]["fields"]
        chk.prove("generate_candidate_set(None):path%d:threshold==floor(phi*n_added)" % i, o.state.pc, _glue.ex_num(f["threshold_sort"]) == z3.ToInt(f0["phi"].t * z3.ToReal(nad)), tag="G")


def check_query(chk, ex, found):
    """query(): default threshold, regeneration exactly when stale, answer = most_common(k) of the cache"""
    a, objs, _ = _glue.good_objects(ex, "HeavyHitters", "q")
    sref, st0 = objs[0]
    for case in ("explicit", "default"):
        st = st0.fork()
        f = st.objs[sref.oid]["fields"]
        # arbitrary cache state: whatever an earlier query left behind
        nas, ths = z3.Int("n_added_sort"), z3.Int("threshold_sort")
        f["n_added_sort"] = Sym(nas, "uint64")
        f["threshold_sort"] = Sym(ths, "uint32")
        st.pc += [nas >= 0, nas < 2**64, ths >= 0, ths <= 2**32 - 1]
        k = Sym(z3.Int("k"), "int")
        th = Sym(z3.Int("threshold"), "int")
        st.pc += [th.t >= 0, th.t <= 2**32 - 1]
        args = [k, th] if case == "explicit" else [k]
        outs = _glue.call_method(ex, st, sref, "query", args)
        name = "HeavyHitters.query[%s threshold]" % case
        nad = z3.Int("elem_%s[0]" % f["n_added_records"].data)
        phi = f["phi"].t
        for i, (o, e) in enumerate(outs):
            if o.kind != "return":
                et = _glue.exc_type(o.state, o.value)
                _wrappers.row(chk, "%s:path%d:no-exception" % (name, i), et is OverflowError and case == "default", getattr(et, "__name__", et), found)
                continue
            regen = [x for x in e if x[0] == "call" and x[1].endswith("generate_candidate_set")]
            eff_thr = th.t if case == "explicit" else None
            if case == "default":
                # floor(phi * n_added) as a uint32
                prod = phi * z3.ToReal(nad)
                eff_thr = z3.ToInt(prod)
            pc = o.state.pc
            if regen:
                _wrappers.row(chk, "%s:path%d:regenerates-once" % (name, i), len(regen) == 1, None, found)
                targ = regen[0][2]
                none_arg = len(targ) == 0 or (len(targ) == 1 and isinstance(targ[0], Const) and targ[0].v is None)
                okt = (len(targ) == 1 and isinstance(targ[0], (Sym, Const)) and not none_arg) or (none_arg and case == "default")
                _wrappers.row(chk, "%s:path%d:regenerates-with-a-threshold" % (name, i), okt, repr(targ), found)
                if okt and not none_arg:
                    chk.prove("%s:path%d:regenerates-for-the-effective-threshold" % (name, i), pc, _glue.ex_num(targ[0]) == eff_thr, tag="G")
                # (a None argument lets generate_candidate_set compute floor(phi * n_added) itself: see its own rows)
            else:
                chk.prove("%s:path%d:cache-reused-only-when-fresh" % (name, i), pc, z3.And(nas >= nad, ths == eff_thr), tag="G")
            rv = o.value
            okm = isinstance(rv, X.Opaque) and getattr(rv, "counter", None) is not None and isinstance(getattr(rv, "k", None), Sym) and z3.eq(rv.k.t, k.t)
            okm = okm and isinstance(o.state.objs[sref.oid]["fields"].get("candidate_set"), Ref) and o.state.objs[sref.oid]["fields"]["candidate_set"].oid == rv.counter
            _wrappers.row(chk, "%s:path%d:returns-candidate_set.most_common(k)" % (name, i), okm, None, found)


def check_freshness(chk, ex, found):
    """class invariant: every mutator either leaves the tables alone or changes n_added through the
    kernel (add: n_added += value; merge: += other's) - the cache test n_added_sort < n_added sees it"""
    a, objs, _ = _glue.good_objects(ex, "HeavyHitters", "m")
    sref, st0 = objs[0]
    for meth, args in (("add", [_wrappers.key_sym("k1"), Sym(z3.Int("value"), "int")]), ("add_ngram", [_wrappers.key_sym("k1"), Sym(z3.Int("ngram"), "int")])):
        st = st0.fork()
        st.pc += [z3.Int("value") >= 0, z3.Int("ngram") >= 1, z3.Int("ngram") < 2**63]
        for o, e in _glue.call_method(ex, st, sref, meth, args):
            sets = [x for x in e if x[0] == "setattr" and x[2] in ("candidate_set", "n_added_sort", "threshold_sort")]
            _wrappers.row(chk, "HeavyHitters.%s:does-not-touch-the-cache-bookkeeping" % meth, not sets, [x[2] for x in sets], found)


def check_getitem_any_cache(chk, ex, found):
    """hh[key] is the kernel's answer for the current tables whatever an earlier query left in the
    Python-side cache (a value remembered in candidate_set is stale after the next add or merge)"""
    a, objs, _ = _glue.good_objects(ex, "HeavyHitters", "gi")
    sref, st0 = objs[0]
    st = st0.fork()
    f = st.objs[sref.oid]["fields"]
    f["candidate_set"] = st.new_obj("$counter", {"$entries": (), "$unknown": True})
    nas, ths = z3.Int("n_added_sort_gi"), z3.Int("threshold_sort_gi")
    f["n_added_sort"] = Sym(nas, "uint64")
    f["threshold_sort"] = Sym(ths, "uint32")
    k1 = _wrappers.key_sym("k1")
    st.pc += [nas >= 0, nas < 2**64, ths >= 0, ths <= 2**32 - 1, X.BYTESLEN(k1.t) >= 0, X.BYTESLEN(k1.t) <= f["max_key_len"].t]
    outs = _glue.call_method(ex, st, sref, "__getitem__", [k1])
    ok, why = bool(outs), []
    for o, e in outs:
        ks = _wrappers.kernel_calls(e)
        good = o.kind == "return" and [k[1] for k in ks] == ["heavyhitters._max_count"] and isinstance(o.value, Sym) and o.value.t.decl().name().startswith("ret_")
        if not good:
            ok = False
            why.append("%s, kernel calls %s" % (o.kind, [k[1] for k in ks]))
    _wrappers.row(chk, "HeavyHitters.__getitem__:asks-_max_count-whatever-the-cache-holds", ok, why[:3], found)


def query_part(chk, found):
    """query() = most_common(k) of a cache that maps exactly the stored identities with
    _max_count >= threshold to that value and is regenerated whenever it is stale (also used by C03
    and C04, whose statements speak about what query() returns)"""
    if ("hh-query",) in chk.done:
        return
    chk.done.add(("hh-query",))
    ex = glue.make_exec(chk, {("call", "heavyhitters._max_count"): maxcount_hook})
    try:
        check_gcs(chk, ex, found)
        check_gcs_default(chk, ex, found)
    except X.Unsupported as e:
        chk.undecided.append(("generate_candidate_set", "unsupported construct in glue: %s" % e))
    ex2 = glue.make_exec(chk, {("call", "HeavyHitters.generate_candidate_set"): glue._stub_gcs})
    try:
        check_query(chk, ex2, found)
        check_freshness(chk, ex2, found)
        check_getitem_any_cache(chk, ex2, found)
    except X.Unsupported as e:
        chk.undecided.append(("HeavyHitters.query", "unsupported construct in glue: %s" % e))
    chk.assumptions.add("collections.Counter: finite map; most_common(k) = first k of the sort by count (ties in insertion order), a prefix of most_common(None)")


def run(chk):
    cache = {}

    def found():
        if "r" not in cache:
            r = _oracle.hh_history(chk, 150)
            cache["r"] = r
        return cache["r"]

    chk.default_found = found

    _hh.kernels(chk, ["heavyhitters._max_count", "heavyhitters._add", "heavyhitters._merge"])
    query_part(chk, found)
    # the 'count equals hh[key]' clause: same kernel, same arguments (key, len(key)) as __getitem__
    _glue.glue_part(chk, ["HeavyHitters"], {"getitem"}, found)
    n = 30 if chk.tier == "quick" else 800
    bad = _oracle.hh_history(chk, n)
    if bad:
        chk.violation("HeavyHitters:bounded:history-oracle", {"verdict": "bounded oracle failed"}, bad)
    chk.bounded_standin("random add/merge/query/save-load histories on the real HeavyHitters: order, k-truncation, threshold filter, counts == hh[key], completeness, equality with a freshly loaded copy", "%d histories, widths 1..3, NUL-padded aliases" % n, n, int(bool(bad)))
    chk.assumptions.add("collections.Counter: finite map; most_common(k) = first k of the sort by count (ties in insertion order), a prefix of most_common(None)")
    chk.assumptions.add("n_added does not wrap 2^64; _max_count is a function of (tables, key) - its contract")
    chk.assumptions.update(glue.ASSUMED)
    chk.trusted.append("front end B (skv/pyexec.py)")
    chk.notes.append("generate_candidate_set is executed symbolically for concrete small shapes with fully symbolic table contents (BOUNDED in width/depth, unbounded in contents): the cache maps exactly the stored identities of non-empty cells whose _max_count (max over ALL rows, C03's contract) is >= threshold to that value. query(): symbolic execution for every cache state: it regenerates for the effective threshold (floor(phi*n_added) by default) unless n_added_sort >= n_added and threshold_sort equals it, and returns most_common(k) of the cache. Freshness across histories: add/merge change n_added through their kernels (contracts n_added' = n_added + value / + other's) and no mutator touches the cache bookkeeping.")


def replay(path):
    doc = json.load(open(path))
    print(json.dumps(doc.get("replay") or doc.get("detail"), indent=1)[:2000])
    return 1
