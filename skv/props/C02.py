"""C02 - HyperLogLog state depends only on the set of distinct keys (union semantics)."""
import json
import random

import numpy as np
import z3

from ..crosscheck import crosscheck
from ..ctx import small_model
from ..lemmas_hll import lemmas
from ..spec import hll as SP

KERNELS = ["hashes.fasthash64", "hyperloglog._n_leading_zeros64", "hyperloglog._add", "hyperloglog._add_ngram", "hyperloglog._merge"]


def rand_key(rng):
    ln = rng.choice([0, 1, 2, 3, 7, 8, 9, 16, 17, 33])
    return bytes(rng.choice([0, 0x7F, 0x80, 0xFF, rng.randrange(256)]) for _ in range(ln))


def replay_nlz(chk, bad, tir, contract):
    f = chk.module("hyperloglog")._n_leading_zeros64
    xs = []
    for o in bad:
        if o.model is not None:
            xs.append(o.model.eval(z3.BitVec("x", 64), model_completion=True).as_long())
    xs += [0, 1, 2, 3, (1 << 63), (1 << 64) - 1] + [1 << i for i in range(64)] + [(1 << i) - 1 for i in range(1, 64)]
    for x in xs:
        got, want = int(f(x)), SP.nlz64(x)
        if got != want:
            return {"key": "_n_leading_zeros64(%d)" % x, "function": "sketchnu.hyperloglog._n_leading_zeros64", "args": [x], "expected": want, "observed": got, "how": "solver-model" if x in xs[: len(bad)] else "search"}
    return None


def runtime_cases(chk, rng, n):
    """run-time evaluation of the kernel contracts on the real code (bounded; also the replay search)"""
    hl = chk.module("hyperloglog")
    for t in range(n):
        p = rng.choice([7, 8, 11, 16]) if t % 4 else 7
        m = 1 << p
        seed = rng.choice([0, 1, (1 << 63), (1 << 64) - 1, rng.getrandbits(64)])
        regs = np.array([rng.choice([0, 0, 1, 2, 5, 30, 58]) for _ in range(m)], np.uint8)
        key = rand_key(rng) if t % 5 else b""
        # _add
        r1 = regs.copy()
        hl._add(r1, seed, p, m, key)
        want = SP.add(regs.tolist(), seed, p, key)
        if r1.tolist() != want:
            d = [i for i in range(m) if r1[i] != want[i]][0]
            return {"key": "_add(p=%d,seed=%d,key=%r)" % (p, seed, key), "function": "sketchnu.hyperloglog._add", "args": {"p": p, "seed": seed, "key": key.hex(), "registers": "random"}, "expected": "register %d = %d" % (d, want[d]), "observed": int(r1[d]), "how": "runtime-contract"}
        # _add_ngram
        ng = rng.choice([1, 2, 3, len(key), len(key) + 1, max(1, len(key) - 1)]) or 1
        r2 = regs.copy()
        hl._add_ngram(r2, seed, p, m, key, ng)
        want = regs.tolist()
        for w in SP.windows(key, ng):
            want = SP.add(want, seed, p, w)
        if r2.tolist() != want:
            return {"key": "_add_ngram(p=%d,seed=%d,key=%r,n=%d)" % (p, seed, key, ng), "function": "sketchnu.hyperloglog._add_ngram", "args": {"p": p, "seed": seed, "key": key.hex(), "ngram": ng}, "expected": "fold of adds over windows", "observed": "different registers", "how": "runtime-contract"}
        # _merge
        other = np.array([rng.choice([0, 1, 3, 58, 7]) for _ in range(m)], np.uint8)
        r3, o3 = regs.copy(), other.copy()
        hl._merge(r3, o3, m)
        want = SP.merge(regs.tolist(), other.tolist())
        if r3.tolist() != want or o3.tolist() != other.tolist():
            d = [i for i in range(m) if r3[i] != want[i]]
            return {"key": "_merge(m=%d) register %s" % (m, d[:1]), "function": "sketchnu.hyperloglog._merge", "args": {"m": m, "registers": regs.tolist(), "other": other.tolist()}, "expected": "element-wise max (register %s = %s)" % (d[:1], [want[i] for i in d[:1]]), "observed": [int(r3[i]) for i in d[:1]], "how": "runtime-contract"}
    return None


def make_search_replayer(n=60):
    def rp(chk, bad, tir, contract):
        return runtime_cases(chk, random.Random(chk.seed + 7), n)

    return rp


def run(chk):
    hl = chk.module("hyperloglog")
    reps = {"hyperloglog._n_leading_zeros64": replay_nlz}
    for q in KERNELS:
        chk.kernel(q, replayer=reps.get(q, make_search_replayer() if q.startswith("hyperloglog") else None))
    for name, hyps, goal in lemmas():
        chk.prove("lemma:" + name, hyps, goal)
    # vacuity: hypotheses of the representation lemmas are satisfiable; a wrong variant is refuted
    ls = {n: (h, g) for n, h, g in lemmas()}
    chk.cover("rep-add hypotheses", ls["rep-add-attained"][0])
    chk.cover("rep-unique hypotheses", ls["rep-unique"][0])
    from ..contracts.hyperloglog import nlz_def, nlz_char, bv8

    x = z3.BitVec("x", 64)
    chk.prove("canary:nlz-char-off-by-one", [], nlz_char(x, nlz_def(x) + bv8(1)), expect="refuted")
    # encoder cross-check
    rng = random.Random(chk.seed + 2)
    crosscheck(chk, hl._n_leading_zeros64, [(x,) for x in [0, 1, 2, 255, 1 << 31, 1 << 32, (1 << 64) - 1] + [rng.getrandbits(rng.randrange(1, 65)) for _ in range(30)]], "_n_leading_zeros64")
    cases = []
    for _ in range(6):
        regs = np.array([rng.choice([0, 1, 2, 9]) for _ in range(128)], np.uint8)
        cases.append((regs, rng.getrandbits(64), 7, 128, rand_key(rng)))
    crosscheck(chk, hl._add, cases, "_add")
    crosscheck(chk, hl._merge, [(np.array([rng.randrange(60) for _ in range(8)], np.uint8), np.array([rng.randrange(60) for _ in range(8)], np.uint8), 8) for _ in range(5)], "_merge")
    crosscheck(chk, hl._add_ngram, [(np.zeros(128, np.uint8), 3, 7, 128, b"abcdefg", n) for n in (1, 3, 7, 9)], "_add_ngram")
    from . import _glue, _oracle

    _glue.glue_part(chk, ["HyperLogLog"], {"add", "add_ngram", "update", "update_ngram"}, lambda: _oracle.hll_history(chk, 60))
    from . import C08, C15, C17

    C08.merge_tree_part(chk)  # the merge tree the library builds merges every input exactly once
    C08.partition_part(chk)  # how parallel_add partitions a stream: every item queued once, applied once
    from . import C10, C16
    from .. import glue as _g, pyexec as _X

    C10.part(chk, ["HyperLogLog"])  # a sketch that went through save/load (also into shared memory) is the same sketch
    try:
        C16.loaded_shared(chk, _g.make_exec(chk), "HyperLogLog", chk.default_found)
    except _X.Unsupported as e:
        chk.undecided.append(("HyperLogLog.load(shared_memory=True)", "unsupported construct in glue: %s" % e))

    C15.merge_glue(chk, ["HyperLogLog"])  # merge() reaches the merge kernel on every accepting path
    C17.query_fresh(chk, chk.default_found)  # the estimate is a function of the current registers
    hn = 15 if chk.tier == "quick" else 400
    hb = _oracle.hll_history(chk, hn)
    if hb:
        chk.violation("HyperLogLog:bounded:history-oracle", {"verdict": "bounded oracle failed"}, hb)
    chk.bounded_standin("random histories on the real HyperLogLog: registers equal the fresh sketch fed each distinct key once", "%d histories" % hn, hn, int(bool(hb)))
    # bounded stand-in: run-time evaluation of the contracts on the real kernels
    n = 40 if chk.tier == "quick" else 1500
    bad = runtime_cases(chk, rng, n)
    if bad:
        chk.violation("hyperloglog:runtime:contracts", {"verdict": "runtime contract check failed"}, bad)
    chk.bounded_standin("real _add/_add_ngram/_merge vs executable register semantics", "p in {7,8,11,16}, %d random states/keys" % n, 3 * n, 1 if bad else 0)
    chk.notes.append("history induction (trusted meta-theorem): rep-init + rep-add + rep-merge show every reachable register file is the max-rank table of its key set; rep-unique shows the key set determines it. _add_ngram is the fold of _add over windows (its contract), so rep-add covers it step by step.")
    chk.notes.append("glue (HyperLogLog.add/update/merge wrappers) is checked by front end B obligations when available; see evidence rows of kind G")
    chk.assumptions.add("array arguments of _merge do not alias (self-merge is outside the property's input space)")
    chk.trusted.append("skv/spec/hll.py + skv/spec/hashes.py (executable oracles used only for replay and the bounded stand-in)")


def replay(path):
    import importlib

    doc = json.load(open(path))
    r = doc.get("replay")
    if not r:
        print("no failing input recorded for obligation %s" % doc["obligation"])
        print(json.dumps(doc.get("solver"), indent=1))
        return 1
    hl = importlib.import_module("sketchnu.hyperloglog")
    fn = r["function"].split(".")[-1]
    if fn == "_n_leading_zeros64":
        x = r["args"][0]
        got = int(hl._n_leading_zeros64(x))
        print("_n_leading_zeros64(%d) = %d, specification %d" % (x, got, SP.nlz64(x)))
        return 0 if got == SP.nlz64(x) else 1
    if fn == "_merge":
        a = np.array(r["args"]["registers"], np.uint8)
        b = np.array(r["args"]["other"], np.uint8)
        want = SP.merge(a.tolist(), b.tolist())
        hl._merge(a, b, r["args"]["m"])
        print("merge equals element-wise max:", a.tolist() == want)
        return 0 if a.tolist() == want else 1
    print(json.dumps(r, indent=1))
    return 1
