"""C05 - an add raises the key's estimate by its multiplicity and nothing else past it."""
import z3

from . import _cm, _log
from ..lemmas_cm import lemmas_c05
from ..lemmas_log import lemmas_add_log, lemmas_law

LINEAR = ["countmin._query_linear", "countmin._add_linear"]
LOG = ["countmin._query_log16", "countmin._query_log8", "countmin._counter2value", "countmin._rand", "countmin._log_counter", "countmin._add_log16", "countmin._add_log8"]


def log_replayer(q):
    def rp(chk, bad, tir, contract):
        if q in _log.ARGS:
            return _log.runtime_search(chk, [q], 120)[1]
        return None

    return rp


def run(chk):
    for q in LINEAR:
        chk.kernel(q, replayer=_cm.make_replayer(q))
    for q in LOG:
        chk.kernel(q, replayer=log_replayer(q))
    lem, hy = lemmas_c05()
    for name, hyps, goal in lem:
        chk.prove("lemma:" + name, hyps, goal)
    chk.cover("exact add clauses (linear)", hy)
    for ceil, tag in ((65535, "log16"), (255, "log8")):
        ls, hyl = lemmas_add_log(ceil, tag)
        for name, hyps, goal in ls:
            if ":c05:" in name:
                chk.prove("lemma:" + name, hyps, goal)
        chk.cover("add clauses (%s)" % tag, hyl)
    for name, hyps, goal in lemmas_law():
        if "identity" in name or "increasing" in name:
            chk.prove("lemma:" + name, hyps, goal)
    # canary: "estimate == old + v" without the ceiling must be refuted
    name, hyps, goal = lem[0]
    m, v, m1 = z3.Ints("m v m1")
    chk.prove("canary:c05:key-estimate==old+v (no ceiling)", hyps + [z3.Int("depth") == 1, z3.Int("width") == 1], m1 == m + v, expect="refuted")
    from . import _glue, _oracle

    _glue.glue_part(chk, ["CountMinLinear", "CountMinLog16", "CountMinLog8"], {"add", "query"}, lambda: _oracle.c01_history(chk, 200))
    _cm.crosscheck_linear(chk)
    n = 25 if chk.tier == "quick" else 500
    cases, bad = _cm.runtime_search(chk, LINEAR, n)
    c2, bad2 = _log.runtime_search(chk, ["countmin._log_counter", "countmin._add_log16", "countmin._add_log8"], n)
    for b in (bad, bad2):
        if b:
            chk.violation("countmin:runtime:contracts", {"verdict": "runtime contract check failed"}, b)
    chk.bounded_standin("contract clauses evaluated on random executions of the real add kernels", "tables up to 3x4, %d runs" % (cases + c2), cases + c2, int(bool(bad)) + int(bool(bad2)))
    chk.notes.append("'every reachable state' is covered by proving the clauses for all states satisfying the shape invariant (stronger). Log estimates are decoded counters; decode is strictly increasing (lemma), so statements about counters carry over to estimates.")
    chk.assumptions.add("float64 treated as real in _log_counter/_counter2value (only b^0 = 1 and rand < 1 are used for the reserved range)")


def replay(path):
    return _cm.replay_file(path)
