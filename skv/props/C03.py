"""C03 - heavy hitters never over-count and never report a key that was not added."""
import z3

from . import _cm, _hh
from ..lemmas_hh import lemmas_c03


def run(chk):
    _hh.kernels(chk)
    lem, hy_add, hy_merge = lemmas_c03()
    for name, hyps, goal in lem:
        chk.prove("lemma:" + name, hyps, goal)
    chk.cover("add clauses", hy_add)
    chk.cover("merge clauses", hy_merge)
    # canary: hh[key] <= true - 1 must be refuted
    name, hyps, goal = [l for l in lem if l[0] == "c03:hh[key]<=true-count"][0]
    f = z3.Function("hf", z3.IntSort(), z3.IntSort())
    chk.prove("canary:c03:hh[key]<true-count", hyps + [z3.Int("depth") == 1, z3.Int("width") == 1, z3.Int("max_key_len") == 1], z3.Int("res") < f(z3.Int("x")), expect="refuted")
    from . import _glue, _oracle

    chk.kernel("heavyhitters._add_ngram")
    _glue.glue_part(chk, ["HeavyHitters"], {"add", "getitem", "update", "add_ngram", "update_ngram"}, lambda: _oracle.hh_history(chk, 150))
    from . import C08, C13, C15

    C08.merge_tree_part(chk, ("hh",))  # 'any merge tree' includes the tree the library builds

    C13.query_part(chk, chk.default_found)  # what query() returns is hh[key] of the stored identities, fresh
    C15.merge_glue(chk, ["HeavyHitters"])  # merge() reaches the merge kernel on every accepting path
    from . import C10

    C10.part(chk, ["HeavyHitters"])  # the save/load step of a history
    hn = 25 if chk.tier == "quick" else 800
    hb = _oracle.hh_history(chk, hn)
    if hb and hb.get("property") in ("C03", None):
        chk.violation("HeavyHitters:bounded:history-oracle", {"verdict": "bounded oracle failed"}, hb)
    chk.bounded_standin("random histories on the real HeavyHitters (NUL-padded aliases, widths 1..3, merges, save/load, queries)", "%d histories" % hn, hn, int(bool(hb)))
    _hh.crosscheck_hh(chk)
    n = 20 if chk.tier == "quick" else 400
    cases, bad = _hh.runtime_search(chk, _hh.KERNELS, n)
    if bad:
        chk.violation("heavyhitters:runtime:contracts", {"verdict": "runtime contract check failed"}, bad)
    chk.bounded_standin("contract clauses evaluated on random executions of the real heavy-hitter kernels (NUL-padded aliases, width 1, counts near 2^32-1)", "%d runs" % cases, cases, int(bool(bad)))
    chk.notes.append("Identity = (zero padded bytes, length), taken from the property statement. I3: a cell storing identity x has count <= f(x). init + add + merge lemmas give I3 in every reachable state (history induction, meta-theorem); hh[key] = _max_count <= f(key). query()/generate_candidate_set report stored identities with value _max_count (glue obligations, front end B).")
    chk.assumptions.add("operands of merge do not alias; identities are extensional (equal bytes and length => same key)")


def replay(path):
    return _cm.replay_file(path)
