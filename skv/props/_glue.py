"""Shared glue-level obligations (front end B)."""
import z3

from .. import glue, pyexec as X
from ..pyexec import Sym, Const, Ref, Arr
from ..contract import REGISTRY
from ..lemma import LFrame

MUTATING = ("setattr", "kernel", "copyto", "arr-store", "savez", "delattr", "shm.close", "shm.unlink", "shm-create", "counter-clear", "counter-store")


def good_objects(ex, clsname, tag, shared=False, st=None, **kw):
    """(args, [(ref, state)]) for the non-raising outcomes of the real constructor"""
    args, outs = glue.construct(ex, clsname, tag, shared, st, **kw)
    return args, [(v, s) for k, v, s in outs if k == "val"], [(v, s) for k, v, s in outs if k == "raise"]


def exc_type(st, v):
    if isinstance(v, Const):
        return v.v
    if isinstance(v, Ref):
        return st.objs[v.oid]["fields"].get("$type")
    return None


def call_method(ex, st, ref, name, args, kwargs=None):
    cls = st.objs[ref.oid]["cls"]
    m = cls.lookup(name)
    if m is None:
        raise X.Unsupported("no method %s" % name)
    fn, static = m
    a = list(args) if static else [ref] + list(args)
    n0 = len(st.effects)
    outs = ex.call_function(fn, a, dict(kwargs or {}), st)
    return [(o, o.state.effects[n0:]) for o in outs]


def prove_under(chk, name, pc, goal, tag="G"):
    return chk.prove(name, pc, goal, tag=tag)


def kernel_requires(chk, name, eff, st, pc, mode="int", extra=None):
    """obligations: the requires clauses of the called kernel hold at this call site"""
    _, qual, argmap = eff
    c = REGISTRY.get(qual)
    if c is None:
        chk.undecided.append((name, "no contract for kernel %s" % qual))
        return
    scalars, arrays, keys = {}, {}, {}
    for n, v in argmap.items():
        if isinstance(v, Arr):
            arrays[n] = (z3.Function(X.uid("g_" + n), *([z3.IntSort()] * (len(v.shape) + 1))), None, tuple(v.shape))
        elif isinstance(v, (Sym, Const)) and not (isinstance(v, Sym) and v.dtype == "bytes"):
            try:
                scalars[n] = ex_num(v)
            except Exception:
                scalars[n] = z3.Int(X.uid("g_" + n))
        else:
            from ..lemma import _Key

            ln = X.BYTESLEN(v.t) if isinstance(v, Sym) and v.dtype == "bytes" else z3.Int(X.uid("len_" + n))
            keys[n] = _Key(z3.Int(X.uid("kid_" + n)), ln)
    if c.mode == "bv":
        # bit-vector contract: hand the (in-range) glue integers over as 64-bit words
        scalars = {n: z3.Int2BV(t, 64) for n, t in scalars.items()}
        arrays = {n: (None, None, tuple(z3.Int2BV(x, 64) for x in sh)) for n, (f, g, sh) in arrays.items()}
    F = LFrame(c.mode, scalars, arrays, keys)
    skip = extra or ()
    for rn, f in c.requires(F):
        if any(s in rn for s in ("batch-in",)) or rn in skip:
            continue
        chk.prove("%s:call:%s:%s" % (name, qual.split(".")[-1], rn), pc, f, tag="G")


def ex_num(v):
    if isinstance(v, Sym):
        return v.t if v.dtype != "bool" else z3.If(v.t, 1, 0)
    if isinstance(v.v, bool):
        return z3.IntVal(int(v.v))
    if isinstance(v.v, int):
        return z3.IntVal(v.v)
    if isinstance(v.v, float):
        return z3.RealVal(repr(v.v))
    raise ValueError

def glue_part(chk, classes, which, oracle):
    """front end B rows for the class methods around the kernels; `oracle` = replay search"""
    from .. import glue, pyexec
    from . import _wrappers

    ex = glue.make_exec(chk)
    cache = {}

    def found():
        if "r" not in cache:
            cache["r"] = oracle()
        return cache["r"]

    chk.default_found = found

    for cls in classes:
        try:
            _wrappers.entry_points(chk, ex, cls, which, found=found)
        except pyexec.Unsupported as e:
            chk.undecided.append(("%s glue" % cls, "unsupported construct in glue: %s" % e))
    if chk.pid not in ("C15", "C09") and any(c.startswith("CountMin") for c in classes):
        # sketches are usually built through the CountMin() factory (helpers do): it builds what the
        # class constructor builds from the same arguments
        from . import C15

        try:
            C15.factory_rows(chk, ex, [c for c in classes if c.startswith("CountMin")])
        except pyexec.Unsupported as e:
            chk.undecided.append(("CountMin factory", "unsupported construct in glue: %s" % e))
    if chk.pid != "C16":
        # frame precondition of every kernel contract: its array operands do not overlap.  In-memory
        # tables are fresh allocations; the views of a shared-memory sketch must tile its block
        from . import C16

        for cls in classes:
            try:
                C16.owner_layout(chk, ex, cls, found)
            except pyexec.Unsupported as e:
                chk.undecided.append(("%s shared layout" % cls, "unsupported construct in glue: %s" % e))
    chk.assumptions.update(glue.ASSUMED)
    chk.trusted.append("front end B (skv/pyexec.py): symbolic execution of the Python subset, re-parsed from the tree under test every run")


PARAM_FIELDS = {"width", "depth", "uint_maxval", "max_count", "num_reserved", "base", "p", "seed", "m", "max_key_len", "phi", "alpha", "threshold", "bias_data", "raw_estimate", "args", "buckets", "rand_nums"}


TABLE_FIELDS = {"cms", "n_added_records", "registers", "lhh", "lhh_count", "key_lens"}


def field_stability(chk, ex, tables=False, classes=None):
    """class invariant: no public method reassigns a parameter field (so every reachable object
    has the parameter fields its constructor gave it)"""
    from . import _wrappers

    k1 = _wrappers.key_sym("k1")
    value = Sym(z3.Int("value"), "int")
    ngram = Sym(z3.Int("ngram"), "int")
    for cls in ("CountMinLinear", "CountMinLog16", "CountMinLog8", "HyperLogLog", "HeavyHitters"):
        if classes is not None and cls not in classes:
            continue
        if ("stability", cls) in chk.done:
            continue
        chk.done.add(("stability", cls))
        tables = True  # the table rows are cheap and wanted everywhere
        a, objs, _ = good_objects(ex, cls, "fs")
        sref, st0 = objs[0]
        b, others, _ = good_objects(ex, cls, "fs", st=st0.fork())
        oref, st1 = others[0]
        calls = [("add", [k1, value]), ("add_ngram", [k1, ngram]), ("update", [[k1]]), ("update_ngram", [[k1], ngram]), ("merge", [oref]), ("save", [Sym(z3.Int("fn"), "str")]), ("attach_existing_shm", [Sym(z3.Int("nm"), "str")])]
        if cls != "HyperLogLog":
            calls += [("__getitem__", [k1]), ("n_added", []), ("n_records", [])]
        if cls != "HeavyHitters":
            calls += [("query", [k1] if cls != "HyperLogLog" else [])]
        else:
            calls += [("query", [Sym(z3.Int("k"), "int")])]
        for meth, args in calls:
            st = st1.fork()
            st.pc += [value.t >= 0, value.t < 2**64, ngram.t >= 1, ngram.t < 2**63, X.BYTESLEN(k1.t) >= 0]
            try:
                outs = call_method(ex, st, sref, meth, args)
            except X.Unsupported as e:
                chk.undecided.append(("%s.%s" % (cls, meth), "unsupported construct in glue: %s" % e))
                continue
            bad, badt = set(), set()
            for o, eff in outs:
                for e in eff:
                    if e[0] in ("setattr", "delattr") and e[1] in (sref.oid, oref.oid) and e[2] in PARAM_FIELDS:
                        bad.add(e[2])
                    if e[0] in ("setattr", "delattr") and e[1] in (sref.oid, oref.oid) and e[2] in TABLE_FIELDS and meth != "attach_existing_shm":
                        badt.add(e[2])
            _wrappers.row(chk, "%s.%s:does-not-reassign-parameter-fields" % (cls, meth), not bad, sorted(bad))
            if tables:
                # a table attribute is bound once (constructor / attach): rebinding it would cut a shared
                # or attached sketch loose from its block - updates go *into* the arrays
                _wrappers.row(chk, "%s.%s:does-not-rebind-its-tables" % (cls, meth), not badt, sorted(badt))


KIND = {"CountMinLinear": "cms", "CountMinLog16": "cms", "CountMinLog8": "cms", "HyperLogLog": "hll", "HeavyHitters": "hh"}


def integrity_bundle(chk, classes, found=None, merge_tree=True):
    """class-level obligations shared by every property whose statement quantifies over histories or
    configurations of these classes: however a sketch comes into being (factory, constructor,
    save/load, shared memory, attach_shared_memory) it has the parameters and tables asked for; every
    merge() reaches its kernel; the library's merge tree and queue handling lose nothing; what
    query() answers is the kernel's answer for the current tables.  Every part is idempotent per run."""
    from .. import glue, pyexec
    from . import C08, C10, C13, C15, C16, C17, C18

    found = found or getattr(chk, "default_found", None)
    ex = glue.make_exec(chk)
    cm = [c for c in classes if c.startswith("CountMin")]
    steps = []
    if cm:
        steps.append(("CountMin factory", lambda: C15.factory_rows(chk, ex, cm)))
        steps.append(("log constructors", lambda: C18.constructor_rows(chk, cm)))
    steps.append(("save/load", lambda: C10.part(chk, list(classes))))
    steps.append(("merge()", lambda: C15.merge_glue(chk, list(classes))))

    def merge_kernels():
        # the kernels those merge() methods reach, against their full contracts (tables merged cell
        # by cell, both bookkeeping counters summed, the other operand untouched)
        from . import _cm, _hh, _log

        for q in sorted(set(C15.MERGE_KERNEL[c] for c in classes)):
            if q.startswith("heavyhitters."):
                _hh.kernels(chk, [q])
            elif q == "countmin._merge_linear":
                chk.kernel(q, replayer=_cm.make_replayer(q))
            elif q.startswith("countmin._merge_log"):
                chk.kernel("countmin._counter2value")
                chk.kernel(q, replayer=lambda c, bad, tir, contract, q=q: (_log.runtime_search(c, [q], 100)[1] if q in _log.ARGS else None))
            else:
                chk.kernel(q)
        # bounded companion (a rewritten kernel may leave the verifier's subset): the contract clauses
        # evaluated on random executions of the real merge kernels
        if ("merge-kernels-runtime",) in chk.done:
            return
        chk.done.add(("merge-kernels-runtime",))
        import random as _r

        bad, cases = None, 0
        for q in sorted(set(C15.MERGE_KERNEL[c] for c in classes)):
            try:
                if q == "hyperloglog._merge":
                    from . import C02

                    b_ = C02.runtime_cases(chk, _r.Random(chk.seed + 7), 16)
                    cases += 16
                elif q == "heavyhitters._merge":
                    n_, b_ = _hh.runtime_search(chk, [q], 12)
                    cases += n_
                elif q == "countmin._merge_linear":
                    n_, b_ = _cm.runtime_search(chk, [q], 12)
                    cases += n_
                else:
                    n_, b_ = _log.runtime_search(chk, [q], 12)
                    cases += n_
            except Exception as e:  # the kernel itself failed on a legal input
                b_ = {"key": q, "observed": "raised %s: %s" % (type(e).__name__, e), "how": "runtime contract evaluation"}
            bad = bad or b_
        if bad:
            chk.violation("merge-kernels:runtime:contracts", {"verdict": "runtime contract check failed"}, bad)
        chk.bounded_standin("merge kernel contract clauses evaluated on random executions of the real kernels", "%d runs" % cases, cases, int(bool(bad)))

    steps.append(("merge kernels", merge_kernels))
    steps.append(("attach_shared_memory", lambda: C16.attach_helper_part(chk, ex, found, list(classes))))
    ex3 = glue.make_exec(chk, {("call", "HeavyHitters.generate_candidate_set"): glue._stub_gcs})
    for c in classes:
        steps.append((c + ".load(shared_memory=True)", lambda c=c: C16.loaded_shared(chk, ex3, c, found)))
    steps.append(("field stability", lambda: field_stability(chk, ex3, True, list(classes))))
    if "HeavyHitters" in classes:
        steps.append(("HeavyHitters.query", lambda: C13.query_part(chk, found)))
    if "HyperLogLog" in classes:
        steps.append(("HyperLogLog.query freshness", lambda: C17.query_fresh(chk, found)))
    if merge_tree:
        steps.append(("parallel_merging", lambda: C08.merge_tree_part(chk, sorted(set(KIND[c] for c in classes)))))
        steps.append(("queue handling", lambda: C08.partition_part(chk)))
    for what, f in steps:
        try:
            f()
        except pyexec.Unsupported as e:
            chk.undecided.append((what, "unsupported construct in glue: %s" % e))
    chk.assumptions.update(glue.ASSUMED)
