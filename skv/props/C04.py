"""C04 - heavy hitters always report a key that dominates one of its cells."""
import z3

from . import _cm, _hh
from ..lemmas_hh import lemmas_c04


def run(chk):
    _hh.kernels(chk)
    lem, hy_add, hy_merge = lemmas_c04()
    for name, hyps, goal in lem:
        chk.prove("lemma:" + name, hyps, goal)
    chk.cover("add clauses + no saturation", hy_add)
    chk.cover("merge clauses", hy_merge)
    name, hyps, goal = [l for l in lem if l[0].startswith("c04:hh[key]>=2f-W_r")][0]
    f = z3.Function("hf", z3.IntSort(), z3.IntSort())
    S = z3.Function("hS", z3.IntSort(), z3.IntSort(), z3.IntSort())
    chk.prove("canary:c04:hh[key]>=2f-W_r+1", hyps + [z3.Int("depth") == 1, z3.Int("width") == 1, z3.Int("max_key_len") == 1], z3.Int("res") >= 2 * f(z3.Int("x")) - S(z3.Int("r"), z3.IntVal(0)) + 1, expect="refuted")
    from . import _glue, _oracle

    chk.kernel("heavyhitters._add_ngram")
    _glue.glue_part(chk, ["HeavyHitters"], {"add", "getitem", "update", "add_ngram", "update_ngram"}, lambda: _oracle.hh_history(chk, 150))
    from . import C08, C13, C15

    C08.merge_tree_part(chk, ("hh",))  # 'any merge tree' includes the tree the library builds

    C13.query_part(chk, chk.default_found)  # what query() returns is hh[key] of the stored identities, fresh
    C15.merge_glue(chk, ["HeavyHitters"])  # merge() reaches the merge kernel on every accepting path
    hn = 25 if chk.tier == "quick" else 800
    hb = _oracle.hh_history(chk, hn)
    if hb and hb.get("property") in ("C04", None):
        chk.violation("HeavyHitters:bounded:history-oracle", {"verdict": "bounded oracle failed"}, hb)
    chk.bounded_standin("random histories on the real HeavyHitters (NUL-padded aliases, widths 1..3, merges, save/load, queries)", "%d histories" % hn, hn, int(bool(hb)))
    _hh.crosscheck_hh(chk)
    n = 20 if chk.tier == "quick" else 400
    cases, bad = _hh.runtime_search(chk, _hh.KERNELS, n)
    if bad:
        chk.violation("heavyhitters:runtime:contracts", {"verdict": "runtime contract check failed"}, bad)
    chk.bounded_standin("contract clauses evaluated on random executions of the real heavy-hitter kernels", "%d runs" % cases, cases, int(bool(bad)))
    chk.notes.append("Potential Phi_x(r) = +count if the key's cell in row r stores x, else -count. I4: Phi_x(r) >= 2 f(x) - S(r, cell) absent saturation; established by init, preserved by add (all cases: x itself / a competitor; match / replace / decrement) and super-additive under merge. Consequences: hh[x] >= 2f - W_r when positive; a majority key (2f > N) is stored in its cell in every row, has count >= 2f - N and strictly the largest count among reported keys, hence is first in most_common (glue: query scans every row and uses >= threshold).")
    chk.assumptions.add("absent 32-bit saturation (as the property states); S(r,c1)+S(r,c2) <= N for c1 != c2 and count traffic meta-facts about the ghost sums")


def replay(path):
    return _cm.replay_file(path)
