"""C04 - heavy hitters always report a key that dominates one of its cells."""
import z3

from . import _cm, _hh
from ..lemmas_hh import lemmas_c04


def run(chk):
    _hh.kernels(chk)
    lem, hy_add, hy_merge = lemmas_c04()
    for name, hyps, goal in lem:
        chk.prove("lemma:" + name, hyps, goal)
    chk.cover("add clauses + no saturation", hy_add)
    chk.cover("merge clauses", hy_merge)
    name, hyps, goal = [l for l in lem if l[0].startswith("c04:hh[key]>=2f-W_r")][0]
    f = z3.Function("hf", z3.IntSort(), z3.IntSort())
    S = z3.Function("hS", z3.IntSort(), z3.IntSort(), z3.IntSort())
    chk.prove("canary:c04:hh[key]>=2f-W_r+1", hyps + [z3.Int("depth") == 1, z3.Int("width") == 1, z3.Int("max_key_len") == 1], z3.Int("res") >= 2 * f(z3.Int("x")) - S(z3.Int("r"), z3.IntVal(0)) + 1, expect="refuted")
    _hh.crosscheck_hh(chk)
    n = 20 if chk.tier == "quick" else 400
    cases, bad = _hh.runtime_search(chk, _hh.KERNELS, n)
    if bad:
        chk.violation("heavyhitters:runtime:contracts", {"verdict": "runtime contract check failed"}, bad)
    chk.bounded_standin("contract clauses evaluated on random executions of the real heavy-hitter kernels", "%d runs" % cases, cases, int(bool(bad)))
    chk.notes.append("Potential Phi_x(r) = +count if the key's cell in row r stores x, else -count. I4: Phi_x(r) >= 2 f(x) - S(r, cell) absent saturation; established by init, preserved by add (all cases: x itself / a competitor; match / replace / decrement) and super-additive under merge. Consequences: hh[x] >= 2f - W_r when positive; a majority key (2f > N) is stored in its cell in every row, has count >= 2f - N and strictly the largest count among reported keys, hence is first in most_common (glue: query scans every row and uses >= threshold).")
    chk.assumptions.add("absent 32-bit saturation (as the property states); S(r,c1)+S(r,c2) <= N for c1 != c2 and count traffic meta-facts about the ghost sums")


def replay(path):
    return _cm.replay_file(path)
