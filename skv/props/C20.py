"""C20 - a truncated sketch file is never loaded as a sketch."""
import ast
import json
import os
import tempfile

import numpy as np
import z3

from .. import glue, pyexec as X
from ..pyexec import Sym, Const, Ref, Arr
from . import _glue, _wrappers, C10

LOADERS = [("countmin", "CountMinLinear"), ("countmin", "CountMinLog16"), ("countmin", "CountMinLog8"), ("hyperloglog", "HyperLogLog"), ("heavyhitters", "HeavyHitters")]


def handlers_in(fn_node):
    return [n for n in ast.walk(fn_node) if isinstance(n, ast.Try)]


def check(chk, ex, found):
    for mod, cls in LOADERS:
        try:
            _check_class(chk, ex, found, mod, cls)
        except X.Unsupported as e:
            chk.undecided.append((cls + " loader", "unsupported construct in glue: %s" % e))
    _check_module_load(chk, ex, found)


def _check_class(chk, ex, found, mod, cls):
    fn = Sym(z3.Int("filename"), "str")
    if True:
        c = ex.cls(mod, cls)
        load = c.lookup("load")[0]
        name = cls + ".load"
        # (0) the loader is a plain function of the file: nothing (a memoising decorator, say) can hand
        #     back a sketch without opening the file
        decos = [getattr(d, "id", getattr(d, "attr", getattr(getattr(d, "func", None), "id", getattr(getattr(d, "func", None), "attr", "?")))) for d in load.node.decorator_list]
        _wrappers.row(chk, name + ":no-decorator-but-staticmethod", all(d in ("staticmethod", "classmethod") for d in decos), decos, found)
        # (1) no handler can swallow an error of np.load or of a member read
        _wrappers.row(chk, name + ":no-exception-handler", not handlers_in(load.node), "try/except inside the loader", found)
        # (1b) save() hands the *path* to np.savez (numpy then creates / truncates the file itself) and
        #      opens nothing on its own - otherwise stale bytes of an older, longer file could survive
        save = c.lookup("save")[0]
        calls = [n for n in ast.walk(save.node) if isinstance(n, ast.Call)]
        savez = [n for n in calls if isinstance(n.func, ast.Attribute) and n.func.attr in ("savez", "savez_compressed") and isinstance(n.func.value, ast.Name) and n.func.value.id == "np"]
        opens = [n for n in calls if (isinstance(n.func, ast.Name) and n.func.id == "open") or (isinstance(n.func, ast.Attribute) and n.func.attr in ("open", "fdopen"))]
        param = save.node.args.args[1].arg if len(save.node.args.args) > 1 else None
        # nothing but np.savez (and pure path conversions) is handed the file name
        PURE = {"Path", "str", "fspath", "abspath", "expanduser", "resolve", "with_suffix", "print", "debug", "info", "warning", "format", "repr"}
        def fname_(n):
            return n.func.id if isinstance(n.func, ast.Name) else getattr(n.func, "attr", "?")
        touching = [fname_(n) for n in calls if n not in savez and fname_(n) not in PURE and any(isinstance(x, ast.Name) and x.id == param for a_ in list(n.args) + [k.value for k in n.keywords] for x in ast.walk(a_))]
        opens = opens + [n for n in calls if fname_(n) in ("ZipFile", "NamedTemporaryFile", "TemporaryFile", "memmap")]
        ok = len(savez) == 1 and not opens and not touching and savez[0].args and isinstance(savez[0].args[0], ast.Name) and savez[0].args[0].id == param
        _wrappers.row(chk, cls + ".save:np.savez-gets-the-path-itself-and-nothing-else-opens-a-file", ok, None, found)
        # (2) a sketch is returned only after every member save() wrote has been read through the npz file
        a, objs, _ = _glue.good_objects(ex, cls, "t")
        sref, st0 = objs[0]
        outs = [(o, e) for o, e in _glue.call_method(ex, st0.fork(), sref, "save", [fn]) if o.kind == "return"]
        members = [e for e in outs[0][1] if e[0] == "savez"][0][2]
        ex.npz_members = members
        louts = _glue.call_method(ex, outs[0][0].state.fork(), sref, "load", [fn, Const(False)])
        for lo, le in louts:
            if lo.kind != "return":
                continue
            loads = [e for e in le if e[0] == "np.load"]
            reads = set(e[2] for e in le if e[0] == "npz-read")
            need = set(members) - ({"dtype"} if False else set())
            _wrappers.row(chk, name + ":opens-the-file-with-np.load", len(loads) >= 1, None, found)
            opened = [lo.state.objs[e[1]]["fields"].get("file") for e in loads]
            _wrappers.row(chk, name + ":opens-exactly-the-file-it-was-given", all(x is fn for x in opened), [repr(x) for x in opened], found)
            _wrappers.row(chk, name + ":reads-every-saved-member-before-returning", need <= reads, "not read: %s" % sorted(need - reads), found)
            # member reads happen inside the with-block of that np.load (file still open, zip directory parsed)
            kinds = [e[0] for e in le if e[0] in ("with-enter", "with-exit", "npz-read")]
            inside, ok = False, True
            for k in kinds:
                if k == "with-enter":
                    inside = True
                elif k == "with-exit":
                    inside = False
                elif not inside:
                    ok = False
            _wrappers.row(chk, name + ":member-reads-inside-the-with-block", ok, kinds, found)
        ex.npz_members = None


def _check_module_load(chk, ex, found):
    ml = ex.func("countmin", "load")
    _wrappers.row(chk, "countmin.load:no-exception-handler", not handlers_in(ml.node), None, found)
    # the module-level loader opens the file it was given - and only that file - on its way to the
    # class loader (a path derived from the argument could name another, complete file)
    for cls in ("CountMinLinear", "CountMinLog16", "CountMinLog8"):
        a, objs, _ = _glue.good_objects(ex, cls, "ml")
        if not objs:
            continue
        sref, st0 = objs[0]
        fn = Sym(z3.Int("filename"), "str")
        outs = [(o, e) for o, e in _glue.call_method(ex, st0.fork(), sref, "save", [fn]) if o.kind == "return"]
        if not outs:
            continue
        ex.npz_members = [e for e in outs[0][1] if e[0] == "savez"][0][2]
        try:
            st = outs[0][0].state.fork()
            n0 = len(st.effects)
            louts = ex.call_function(ml, [fn, Const(False)], {}, st)
        finally:
            ex.npz_members = None
        for lo in louts:
            if lo.kind != "return":
                continue
            le = lo.state.effects[n0:]
            opened = [lo.state.objs[e[1]]["fields"].get("file") for e in le if e[0] == "np.load"]
            _wrappers.row(chk, "countmin.load[%s file]:opens-exactly-the-file-it-was-given" % cls, bool(opened) and all(x is fn for x in opened), [repr(x) for x in opened], found)


def prefix_oracle(chk, quick):
    """every strict prefix of a saved file must raise, through class loaders and module load()"""
    cm, hl, hh = chk.module("countmin"), chk.module("hyperloglog"), chk.module("heavyhitters")
    mk = [
        (lambda: cm.CountMinLinear(3, 2), [cm.CountMinLinear.load, cm.load]),
        (lambda: cm.CountMinLog16(3, 2), [cm.CountMinLog16.load, cm.load]),
        (lambda: cm.CountMinLog8(4, 2), [cm.CountMinLog8.load, cm.load]),
        (lambda: hl.HyperLogLog(7), [hl.HyperLogLog.load]),
        (lambda: hh.HeavyHitters(2, 2, 4), [hh.HeavyHitters.load]),
    ]
    tmp = tempfile.mkdtemp(prefix="skv")
    cases = 0
    try:
        for make, loaders in mk:
            s = make()
            for k in (b"a", b"bb", b"a"):
                s.add(k)
            fn = os.path.join(tmp, "full.npz")
            s.save(fn)
            data = open(fn, "rb").read()
            step = 1 if not quick else max(1, len(data) // 400)
            offs = sorted(set(list(range(0, len(data), step)) + list(range(max(0, len(data) - 64), len(data))) + list(range(0, min(64, len(data))))))
            cut = os.path.join(tmp, "cut.npz")
            for off in offs:
                with open(cut, "wb") as f:
                    f.write(data[:off])
                for ld in loaders:
                    cases += 1
                    try:
                        r = ld(cut)
                    except Exception:
                        continue
                    return cases, {"key": "%s prefix of %d/%d bytes via %s" % (type(s).__name__, off, len(data), getattr(ld, "__qualname__", ld.__name__)), "observed": "returned %s" % type(r).__name__, "expected": "an exception", "how": "bounded: prefixes of a real file"}
            # a truncated copy under another name next to the complete file must not load either
            for nm in ("full.part", "full.tmp", "full", "full.npz.part"):
                alt = os.path.join(tmp, nm)
                for off in (0, len(data) // 2, len(data) - 1):
                    with open(alt, "wb") as f:
                        f.write(data[:off])
                    for ld in loaders:
                        cases += 1
                        try:
                            r = ld(alt)
                        except Exception:
                            continue
                        return cases, {"key": "%s: %d-byte prefix stored as %s next to the complete full.npz via %s" % (type(s).__name__, off, nm, getattr(ld, "__qualname__", ld.__name__)), "observed": "returned %s" % type(r).__name__, "expected": "an exception", "how": "bounded: prefixes of a real file"}
                os.unlink(alt)
            for ld in loaders:
                r = ld(fn)
                if type(r) is not type(s):
                    return cases, {"key": "complete file via %s" % ld.__name__, "observed": type(r).__name__, "how": "bounded"}
    finally:
        for f in os.listdir(tmp):
            os.unlink(os.path.join(tmp, f))
        os.rmdir(tmp)
    return cases, None


def embedded_archive(chk):
    """F5: the assumed external contract 'numpy rejects every strict prefix' is false when the table
    contents themselves spell a complete .npz archive (members are stored uncompressed and zipfile
    tolerates leading bytes): the prefix that ends with the embedded end-of-central-directory record
    loads - as the embedded sketch.  Built with the public API only (adds), on the real classes."""
    cm = chk.module("countmin")
    tmp = tempfile.mkdtemp(prefix="skv")
    try:
        inner = cm.CountMinLinear(1, 1)
        inner.add(b"x", 7)
        fi = os.path.join(tmp, "inner.npz")
        inner.save(fi)
        ib = open(fi, "rb").read()
        n = (len(ib) + 3) // 4
        words = np.frombuffer(ib + b"\0" * (4 * n - len(ib)), dtype=np.uint32)
        outer = cm.CountMinLinear(n + 8, 1)
        # one key per column (depth 1: the key's only counter), then add(key, word) spells the bytes
        key_of, i = {}, 0
        while len(key_of) < n and i < 200000:
            k = b"k%d" % i
            outer.query(k)
            c = int(outer.buckets[0])
            if c < n and c not in key_of:
                key_of[c] = k
            i += 1
        if len(key_of) < n:
            return None
        for c in range(n):
            if int(words[c]):
                outer.add(key_of[c], int(words[c]))
        fo = os.path.join(tmp, "outer.npz")
        outer.save(fo)
        ob = open(fo, "rb").read()
        pos = ob.find(ib)
        if pos < 0:
            return None
        cut = pos + len(ib)
        fp = os.path.join(tmp, "prefix.npz")
        with open(fp, "wb") as f:
            f.write(ob[:cut])
        for how, ld in (("CountMinLinear.load", cm.CountMinLinear.load), ("sketchnu.load", cm.load)):
            try:
                got = ld(fp)
            except Exception:
                continue
            return {"key": "F5", "call": "%s(first %d of the %d bytes written by CountMinLinear(%d, 1).save())" % (how, cut, len(ob), n + 8), "observed": "returned a %s(width=%d, depth=%d) with n_added()=%d" % (type(got).__name__, int(got.width), int(got.depth), int(got.n_added())), "expected": "an exception", "how": "the sketch's counters (set through add() only) spell a complete saved CountMinLinear(1, 1); real classes"}
        return None
    finally:
        for f_ in os.listdir(tmp):
            os.unlink(os.path.join(tmp, f_))
        os.rmdir(tmp)


def run(chk):
    ex = glue.make_exec(chk, {("call", "HeavyHitters.generate_candidate_set"): glue._stub_gcs})
    cache = {}

    def found():
        if "r" not in cache:
            cache["r"] = prefix_oracle(chk, True)[1]
        return cache["r"]

    chk.default_found = found

    try:
        check(chk, ex, found)
    except X.Unsupported as e:
        chk.undecided.append(("loaders", "unsupported construct in glue: %s" % e))
    quick = chk.tier == "quick"
    cases, bad = prefix_oracle(chk, quick)
    if bad:
        chk.violation("load:bounded:prefixes", {"verdict": "bounded check failed"}, bad)
    chk.bounded_standin("strict prefixes of real saved files through class loaders and module load()", "5 classes, one small shape each, %s byte offsets" % ("~400 evenly spaced + the first/last 64" if quick else "every"), cases, int(bool(bad)), exhaustive=not quick)
    emb = embedded_archive(chk)
    if emb:
        chk.violation("load:prefix-ending-at-an-embedded-archive", {"verdict": "the assumed external contract does not hold for this file"}, emb)
    chk.assumptions.add("ASSUMED EXTERNAL CONTRACT: numpy/zipfile reject every strict prefix of an .npz file (central directory is written last): np.load or the first member read raises - EXCEPT when member data embed a complete archive (known finding F5: zipfile tolerates leading bytes, members are stored uncompressed)")
    chk.assumptions.update(glue.ASSUMED)
    chk.trusted.append("front end B (skv/pyexec.py)")
    chk.notes.append("Repository-side obligations: no handler encloses np.load or a member access in any loader, every member save() wrote is read through the open npz file before a sketch is returned, so an exception from numpy propagates to the caller. That numpy raises for every prefix is an assumed external contract, validated only boundedly.")


def replay(path):
    doc = json.load(open(path))
    print(json.dumps(doc.get("replay") or doc.get("detail"), indent=1)[:2000])
    return 1
