"""C12 - batch, dict, multiplicity and ngram entry points equal loops of single adds."""
from . import _cm, _glue, _oracle

NGRAM = ["countmin._add_ngram_linear", "countmin._add_ngram_log16", "countmin._add_ngram_log8", "hyperloglog._add_ngram", "heavyhitters._add_ngram"]
CLASSES = ["CountMinLinear", "CountMinLog16", "CountMinLog8", "HyperLogLog", "HeavyHitters"]


def run(chk):
    for q in NGRAM:
        chk.kernel(q, replayer=lambda c, bad, tir, contract: _oracle.c12_equiv(c, 40))
    # the add kernels themselves against the exact contracts the multiplicity lemmas are stated over
    # (the closed forms are lemmas over contract clauses: the kernels must satisfy those clauses)
    from . import _cm, _hh, C05

    chk.kernel("countmin._add_linear", replayer=_cm.make_replayer("countmin._add_linear"))
    _hh.kernels(chk, ["heavyhitters._add"])
    for q in ("countmin._rand", "countmin._log_counter", "countmin._add_log16", "countmin._add_log8"):
        chk.kernel(q, replayer=C05.log_replayer(q))
    chk.kernel("hyperloglog._add")
    _glue.glue_part(chk, CLASSES, {"add", "add_ngram", "getitem", "query", "update", "update_ngram"}, lambda: _oracle.c12_equiv(chk, 60))
    # multiplicity: add(key, v) == v single adds, by a closed form proved inductive (linear, heavy hitters)
    import z3
    from ..lemmas_cm import lemmas_c12_linear
    from ..lemmas_hh import lemmas_c12_hh
    from ..lemmas_hll import lemmas as hll_lemmas

    lin, hhl = lemmas_c12_linear(), lemmas_c12_hh()
    for name, hyps, goal in lin + hhl:
        chk.prove("lemma:" + name, hyps, goal)
    chk.cover("linear unit-step hypotheses", lin[0][1])
    chk.cover("hh unit-step hypotheses", hhl[0][1])
    for name, hyps, goal in hll_lemmas():
        if name == "add-idempotent":
            chk.prove("lemma:c12:hll:" + name + " (v single adds == one add; add ignores the multiplicity)", hyps, goal)
    # canary: an off-by-one closed form is not inductive
    name, hyps, goal = lin[1]
    chk.prove("canary:c12:linear:n_added closed form off by one", hyps + [z3.Int("depth") == 1, z3.Int("width") == 1], z3.Function("n1u", z3.IntSort(), z3.IntSort())(0) == z3.Function("nn0", z3.IntSort(), z3.IntSort())(0) + z3.Int("j") + 2, expect="refuted")
    n = 12 if chk.tier == "quick" else 400
    bad = _oracle.c12_equiv(chk, n)
    if bad:
        chk.violation("C12:bounded:equivalence-oracle", {"verdict": "bounded oracle failed"}, bad)
    chk.bounded_standin("real classes: update(list/dict), add(k,v) vs v single adds, add_ngram vs windows, update_ngram, sketch[key] vs query - identical resulting state (log types under identical draws)", "%d rounds x 5 classes, small widths, keys incl. NUL/short/long" % n, n * 5, int(bool(bad)))
    chk.notes.append("Proved: (i) every n-gram kernel performs exactly one call of its family's add kernel per window key[i:i+n], i = 0..len-n, with multiplicity 1 (one call on the whole key when len <= n), on its own tables, threading the random pointer, and stores nothing else (call-sequence contracts from the typed IR; HyperLogLog: ghost fold); (ii) update(list), update(dict), update_ngram issue exactly the kernel-call sequence of the loop of single calls, __getitem__ the one of query (symbolic execution of the real methods). (iii) add(key, v) equals v single adds: for linear count-min and heavy hitters (0 <= v <= 2^32-1) by a closed form F_j of the state after j unit adds, proved inductive from the exact clauses of the add kernels and equal to the bulk add at j = v (the induction over j itself is the usual meta-step); HyperLogLog by idempotence. NOT proved: the multiplicity clause for the log types (same draws consumed in the same order) - bounded oracle only.")
    chk.assumptions.add("documented input domain: multiplicities 0 <= v < 2^64, n >= 1, keys are bytes")


def replay(path):
    import json

    doc = json.load(open(path))
    print(json.dumps(doc.get("replay") or doc.get("solver"), indent=1)[:2000])
    return 1
