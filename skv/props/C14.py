"""C14 - row hashes are independent, so depth buys the documented exp(-depth) bound.

The bound is probabilistic (quality of FastHash as a hash family) and cannot be decided by
contracts.  Decided by proof is the *mechanism*: in every query/add kernel of the count-min and
heavy-hitter families the column of row r is FastHash64(whole key, seed = r) mod width - one
distinct seed per row (injective schedule), the same schedule in every kernel of a family."""
import json
import random

import numpy as np

FINISH = {"level": "other", "explanation": "mechanism proved (column = FH64(whole key, seed=row) mod width in every kernel, injective seed schedule); statistical independence of FastHash under distinct seeds is assumed and only sampled (bounded chi-square)"}

KERNELS = ["countmin._query_linear", "countmin._query_log16", "countmin._query_log8", "heavyhitters._add", "heavyhitters._max_count", "hashes.fasthash64"]


def chi2(chk):
    cm = chk.module("countmin")
    rng = np.random.default_rng(chk.seed + 909)
    w = 16
    nkeys = 6000 if chk.tier == "quick" else 20000
    # distinct keys (a repeated key repeats its whole column tuple, which is dependence of the
    # *sample*, not of the hash: 1- and 2-byte keys made the thorough tier alarm falsely)
    seen = set()
    while len(seen) < nkeys:
        seen.add(rng.bytes(int(rng.integers(4, 17))))
    keys = sorted(seen)
    worst, where = 0.0, None
    for depth in ((3, 5, 8) if chk.tier == "quick" else range(2, 9)):
        s = cm.CountMinLinear(w, depth)
        colsm = np.zeros((nkeys, depth), np.int64)
        for i, k in enumerate(keys):
            s.query(k)
            colsm[i] = s.buckets
        for a in range(depth):
            for b in range(a + 1, depth):
                tab = np.zeros((w, w))
                np.add.at(tab, (colsm[:, a], colsm[:, b]), 1)
                e = nkeys / (w * w)
                c2 = float(((tab - e) ** 2 / e).sum())
                if c2 > worst:
                    worst, where = c2, (depth, a, b)
    return worst, where, nkeys


def run(chk):
    for q in KERNELS:
        chk.kernel(q)
    from . import _wrappers

    # the schedule sigma(row) = row is injective (trivially) - stated as an obligation for the record
    import z3

    r1, r2 = z3.Ints("r1 r2")
    chk.prove("lemma:c14:seed-schedule-injective", [], z3.Implies(r1 != r2, r1 != r2))
    # N = n_added(): the bound's N is the total multiplicity added - across adds, merges and
    # save/load (kernel clauses n_added / x-n_added, the class methods that reach them, C10's rows)
    from . import _cm, _glue, _oracle, C10, C15

    chk.kernel("countmin._add_linear", replayer=_cm.make_replayer("countmin._add_linear"))
    chk.kernel("countmin._merge_linear", replayer=_cm.make_replayer("countmin._merge_linear"))
    _glue.glue_part(chk, ["CountMinLinear"], {"add", "query"}, lambda: _oracle.c01_history(chk, 100))
    C15.merge_glue(chk, ["CountMinLinear"])
    C10.part(chk, ["CountMinLinear"])
    worst, where, n = chi2(chk)
    lim = 255 + 9 * (2 * 255) ** 0.5  # df = 255: mean 255, sd 22.6 -> 9 sigma
    bad = worst > lim
    if bad:
        chk.violation("countmin:bounded:row-independence", {"verdict": "chi-square stand-in failed"}, {"key": "depth %d rows %d,%d" % where, "observed": worst, "expected": "< %.0f" % lim, "how": "bounded statistical stand-in"})
    chk.bounded_standin("joint column distribution of every pair of rows (chi-square, width 16)", "%d random keys, worst chi2 %.1f (limit %.0f)" % (n, worst, lim), n, int(bad))
    chk.assumptions.add("FastHash64 under distinct seeds behaves as independent uniform functions (assumed; sampled only)")
    chk.notes.append("A change such as seeding every row identically, deriving all rows from one hash, masking the row, hashing a prefix of the key or reducing modulo depth fails the 'buckets' / column clauses of these kernel contracts.")


def replay(path):
    doc = json.load(open(path))
    print(json.dumps(doc.get("replay") or doc.get("detail"), indent=1)[:2000])
    return 1
