"""Shared machinery for the count-min properties: concrete-shape refutation + replay on the real
kernels, run-time contract evaluation (bounded stand-in), encoder cross-check."""
import random

import numpy as np
import z3

from ..contract import REGISTRY
from ..engine import Engine, KID
from ..extract import typed_ir
from .. import solve, sem as S
from ..runtime import run_and_eval
from ..contracts.hashes import FH64
from ..spec.hashes import fasthash64_py
from ..crosscheck import crosscheck

MAX32 = (1 << 32) - 1
SHAPES = ({"depth": 1, "width": 1}, {"depth": 2, "width": 2}, {"depth": 2, "width": 3})

ARGS = {
    "countmin._query_linear": ["cms", "buckets", "width", "depth", "uint_maxval", "key"],
    "countmin._add_linear": ["cms", "n_added_records", "buckets", "width", "depth", "uint_maxval", "key", "value"],
    "countmin._merge_linear": ["cms", "other_cms", "width", "depth", "uint_maxval", "n_added_records", "other_n_added_records"],
}


def fixed_for(qualname, sh):
    d, w = sh["depth"], sh["width"]
    fx = {"depth": d, "width": w, "uint_maxval": MAX32}
    for a in ("cms", "other_cms"):
        fx["shape(%s)" % a] = (d, w)
    fx["shape(buckets)"] = (d,)
    fx["shape(n_added_records)"] = (2,)
    fx["shape(other_n_added_records)"] = (2,)
    return fx


def _cell(model, name, idx, default=0):
    v = model.eval(z3.Int("%s[%s]" % (name, ",".join(map(str, idx)))), model_completion=True)
    return v.as_long() if z3.is_int_value(v) else default


def model_args(qualname, model, sh, key=b"k"):
    d, w = sh["depth"], sh["width"]
    names = ARGS[qualname]
    sem = S.Sem("int")
    kid = KID(sem)(z3.Int("bid_key"), z3.IntVal(0), z3.Int("len_key"))
    out = []
    perm = {}
    if "key" in names:
        for r in range(d):
            cm = model.eval(FH64(kid, z3.IntVal(r)) % w, model_completion=True).as_long()
            cr = fasthash64_py(key, r) % w
            perm[r] = (cm, cr)
    for n in names:
        if n in ("cms", "other_cms"):
            a = np.zeros((d, w), np.uint32)
            for r in range(d):
                for c in range(w):
                    a[r, c] = _cell(model, n + "0", (r, c)) & MAX32
                if r in perm and n == "cms":
                    cm, cr = perm[r]
                    a[r, cm], a[r, cr] = a[r, cr], a[r, cm]
            out.append(a)
        elif n == "buckets":
            out.append(np.array([_cell(model, "buckets0", (r,)) & ((1 << 64) - 1) for r in range(d)], np.uint64))
        elif n in ("n_added_records", "other_n_added_records"):
            out.append(np.array([_cell(model, n + "0", (i,)) & ((1 << 64) - 1) for i in range(2)], np.uint64))
        elif n == "key":
            out.append(key)
        elif n in ("width", "depth"):
            out.append(sh[n])
        elif n == "uint_maxval":
            out.append(MAX32)
        else:
            v = model.eval(z3.Int(n), model_completion=True)
            out.append(v.as_long() if z3.is_int_value(v) else 0)
    return out


def jsonable(args):
    return [a.tolist() if isinstance(a, np.ndarray) else (a.hex() if isinstance(a, bytes) else a) for a in args]


def concrete_refute(chk, qualname, clause_names, clause_filter=None):
    """re-generate the VCs of `qualname` for small concrete shapes (quantifier-free), and try to turn
    a model of a failing clause into a failing run of the real kernel."""
    mod, fn = qualname.split(".")
    disp = getattr(chk.module(mod), fn)
    contract = REGISTRY[qualname]
    tir = typed_ir(disp)
    for sh in SHAPES:
        # loops are unrolled (bounds are concrete), so no invariant is involved and a model of a
        # failing postcondition / safety obligation is directly an input of the function
        eng = Engine(tir, contract, REGISTRY, unroll=True, fixed=fixed_for(qualname, sh))
        eng.clause_filter = clause_filter
        try:
            obs = eng.run()
        except Exception:
            continue
        for o in obs:
            if o.kind not in ("post", "safety", "frame", "raise"):
                continue
            solve.discharge(o, rlimit=40_000_000)
            if o.result != "refuted":
                continue
            for key in (b"k", b"", b"\x00\xff"):
                args = model_args(qualname, o.model, sh, key)
                only = None
                bad, why, after = run_and_eval(disp, contract, ARGS[qualname], args)
                if bad:
                    return {
                        "key": "%s%s" % (qualname, jsonable(args)),
                        "function": "sketchnu." + qualname,
                        "arg_names": ARGS[qualname],
                        "args": jsonable(args),
                        "violated_clauses": bad,
                        "observed": jsonable(after[0]) + [after[1]] if after else None,
                        "how": "solver-model (concrete shape %s)" % sh,
                    }
    return None


def gen_case(rng, qualname):
    d, w = rng.choice([(1, 1), (2, 2), (2, 3), (3, 2), (3, 4)])
    near = [0, 1, 2, 5, MAX32, MAX32 - 1, MAX32 - 2, MAX32 - 5, 1 << 31, rng.randrange(1 << 32)]
    cms = np.array([[rng.choice(near) for _ in range(w)] for _ in range(d)], np.uint32)
    other = np.array([[rng.choice(near) for _ in range(w)] for _ in range(d)], np.uint32)
    nar = np.array([rng.choice([0, 5, (1 << 64) - 2]), rng.randrange(100)], np.uint64)
    onar = np.array([rng.choice([0, 7, 3]), rng.randrange(100)], np.uint64)
    buckets = np.array([rng.randrange(w) for _ in range(d)], np.uint64)
    key = bytes(rng.randrange(256) for _ in range(rng.choice([0, 1, 3, 8, 9])))
    value = rng.choice([0, 1, 2, 3, 10, MAX32, MAX32 - 1, rng.randrange(1 << 32)])
    vals = {"cms": cms, "other_cms": other, "n_added_records": nar, "other_n_added_records": onar, "buckets": buckets, "width": w, "depth": d, "uint_maxval": MAX32, "key": key, "value": value}
    return [vals[n] for n in ARGS[qualname]]


def runtime_search(chk, qualnames, n, seed_off=0, only=None):
    rng = random.Random(chk.seed + 11 + seed_off)
    cases = 0
    for q in qualnames:
        mod, fn = q.split(".")
        disp = getattr(chk.module(mod), fn)
        for _ in range(n):
            args = gen_case(rng, q)
            bad, why, after = run_and_eval(disp, REGISTRY[q], ARGS[q], args, only=only)
            cases += 1
            if bad:
                return cases, {
                    "key": "%s%s" % (q, jsonable(args)),
                    "function": "sketchnu." + q,
                    "arg_names": ARGS[q],
                    "args": jsonable(args),
                    "violated_clauses": bad,
                    "observed": jsonable(after[0]) + [after[1]] if after else None,
                    "how": "runtime-contract search",
                }
    return cases, None


def make_replayer(qualname, clause_filter=None, only=None):
    cache = {}

    def rp(chk, bad, tir, contract):
        # one search per kernel and run: every failed obligation of the kernel shares the result
        if "r" not in cache:
            names = set(o.name for o in bad)
            found = concrete_refute(chk, qualname, names, clause_filter)
            if not found:
                _, found = runtime_search(chk, [qualname], 60, only=only)
            cache["r"] = found
        return cache["r"]

    return rp


def cone(*prefixes):
    """clause filter: unprefixed clauses plus the given strength prefixes"""
    def ok(contract_name, clause):
        strength = clause[:2] if clause[:2] in ("w-", "x-") else ""
        return strength == "" or strength in prefixes

    return ok


def only_strength(*prefixes):
    def ok(clause):
        strength = clause[:2] if clause[:2] in ("w-", "x-") else ""
        return strength == "" or strength in prefixes

    return ok


def crosscheck_linear(chk):
    cm = chk.module("countmin")
    rng = random.Random(chk.seed + 3)
    for q in ("countmin._query_linear", "countmin._add_linear", "countmin._merge_linear"):
        fn = q.split(".")[1]
        crosscheck(chk, getattr(cm, fn), [gen_case(rng, q) for _ in range(6)], fn)


def replay_file(path):
    import importlib
    import json

    doc = json.load(open(path))
    r = doc.get("replay")
    if not r:
        print("no failing input recorded for obligation %s" % doc["obligation"])
        print(json.dumps(doc.get("solver"), indent=1))
        return 1
    q = r["function"].replace("sketchnu.", "")
    mod, fn = q.split(".")
    disp = getattr(importlib.import_module("sketchnu." + mod), fn)
    tir_sig = typed_ir(disp).sig
    args = []
    from numba.core import types as nt

    for a, t in zip(r["args"], tir_sig):
        if isinstance(t, nt.Bytes):
            args.append(bytes.fromhex(a))
        elif isinstance(t, nt.Array):
            args.append(np.array(a, dtype=str(t.dtype)))
        else:
            args.append(a)
    import skv.contracts  # noqa: F401

    bad, why, after = run_and_eval(disp, REGISTRY[q], r["arg_names"], args)
    print("%s on recorded input: violated clauses = %s" % (q, bad))
    return 1 if bad else 0
