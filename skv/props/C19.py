"""C19 - a failing callback or dead worker never silently corrupts or hangs parallel_add.

Safety parts by contract (front end B with exceptional edges).  NOT decided: termination ("never
hangs") - a liveness statement about OS processes and queues."""
import json

import z3

from .. import glue, pyexec as X
from ..pyexec import Sym, Const, Ref, Arr, Opaque
from . import _glue, _wrappers, _helpers, C08


def exitcode_hook_factory(codes):
    """worker i finally exits with the symbolic code codes[i]; other processes with 0.
    The first read of a worker's code may still be None (running) - explored for worker 0."""
    def hook(ex, st, pref):
        f = st.objs[pref.oid]["fields"]
        tgt = f["target"]
        if isinstance(tgt, X.PyFunc) and tgt.name == "_worker":
            st.effects.append(("exitcode-read", pref.oid))
            i = ex.concrete(f["args"][0])
            if i == 0 and not f.get("seen_none"):
                f["seen_none"] = True
                return [("val", Const(None), st)]
            if f.get("killed"):
                return [("val", Const(-9), st)]
            return [("val", Sym(codes[i], "int"), st)]
        if isinstance(tgt, X.PyFunc) and tgt.name == "_merge_worker":
            c = z3.Int("merge_exit_%d" % f["pid"])
            return [("val", Sym(c, "int"), st)]
        return [("val", Const(0), st)]

    return hook


def check_monitor(chk, ex_factory, found):
    n_workers = 2
    codes = [z3.Int("exit_%d" % i) for i in range(n_workers)]
    ex = ex_factory({("exitcode",): exitcode_hook_factory(codes), ("process-start",): C08.start_hook})
    fn = ex.func("helpers", "parallel_add")
    st = X.State()
    cb = st.new_obj("$callback", {"may_raise": True})
    items = [Sym(z3.Int("item%d" % i), "item") for i in range(2)]
    outs = ex.call_function(fn, [list(items), cb], {"n_workers": Const(n_workers), "hll_args": {"p": Const(8)}}, st)
    name = "parallel_add:monitor"
    rets = [o for o in outs if o.kind == "return"]
    raises = [o for o in outs if o.kind == "raise"]
    _wrappers.row(chk, name + ":both-outcomes-explored", bool(rets) and bool(raises), [o.kind for o in outs][:8], found)
    # wait-for order (the decidable part of 'terminates'): the queue filler blocks on the bounded
    # queue whenever no worker consumes, and only the monitor loop notices dead workers and closes the
    # queue; so parallel_add must not wait for the filler before the monitor loop has seen every
    # worker's exit code - otherwise a dead worker with a backlog hangs it
    for i, o in enumerate(outs):
        eff = o.state.effects
        fillers = [e[1] for e in eff if e[0] == "process-new" and isinstance(e[2], X.PyFunc) and e[2].name == "_fill_queue"]
        joins = [k for k, e in enumerate(eff) if e[0] == "join" and e[1] in fillers]
        reads = [k for k, e in enumerate(eff) if e[0] == "exitcode-read"]
        ok = not joins or (reads and min(joins) > max(reads))
        _wrappers.row(chk, "%s:filler-is-joined-only-after-the-monitor-loop#%d" % (name, i), ok, "join of the queue filler at effect %s, worker exit codes read at %s" % (joins[:1], reads[:3]), found)
    allzero = z3.And(*[c == 0 for c in codes])
    merge_ok = lambda o: [f for f in o.state.pc]
    for i, o in enumerate(rets):
        chk.prove("%s:normal-return=>every-worker-exited-with-code-0#%d" % (name, i), o.state.pc, allzero, tag="G")
        # ... and every merge worker's code was observed non-negative
    for i, o in enumerate(raises):
        et = _glue.exc_type(o.state, o.value)
        eff = o.state.effects
        if et in (ValueError,):
            kills = [e for e in eff if e[0] == "kill"]
            closes = [e for e in eff if e[0] == "queue-close"]
            _wrappers.row(chk, "%s:dead-worker=>workers-killed-and-queues-closed#%d" % (name, i), len(set(e[1] for e in kills)) >= n_workers and len(set(e[1] for e in closes)) == 2, [len(kills), len(closes)], found)
            chk.prove("%s:exception=>some-worker-had-a-non-zero-code#%d" % (name, i), o.state.pc, z3.Not(allzero), tag="G")
        else:
            _wrappers.row(chk, "%s:raise-kind#%d" % (name, i), et in (RuntimeError, OverflowError, ValueError), getattr(et, "__name__", et), found)


def check_merge_exit(chk, ex_factory, found):
    ex = ex_factory({("exitcode",): exitcode_hook_factory([]), ("process-start",): C08.start_hook})
    fn = ex.func("helpers", "parallel_merging")
    st = X.State()
    refs, st = C08.owners(ex, st, "HyperLogLog", 2, "me")
    lq = st.new_obj("$queue", {"items": (), "feed": (), "closed": False})
    outs = ex.call_function(fn, [list(refs), lq], {}, st)
    name = "parallel_merging:exit-code"
    for i, o in enumerate(outs):
        cs = [z3.Int(str(d)) for d in set(str(x) for f in o.state.pc for x in _vars(f)) if str(d).startswith("merge_exit_")]
        if o.kind == "return":
            for c in cs:
                chk.prove("%s:returns=>merge-worker-code>=0#%d" % (name, i), o.state.pc, c >= 0, tag="G")
        else:
            _wrappers.row(chk, "%s:negative-code-raises-RuntimeError#%d" % (name, i), _glue.exc_type(o.state, o.value) is RuntimeError, None, found)
    _wrappers.row(chk, name + ":both-outcomes-explored", any(o.kind == "return" for o in outs) and any(o.kind == "raise" for o in outs), [o.kind for o in outs], found)


def check_log_worker(chk, ex_factory, found):
    """the logger process survives every message the library itself sends: _log_worker, run on a
    queue holding one message of each level that occurs in a log_queue.put({...}) of helpers.py and
    the final pill, returns (a dead logger stops draining the log pipe; workers that log much then
    never finish flushing it, and parallel_add waits for them for ever)"""
    import ast

    ex = ex_factory({})
    mod = ex.modules["helpers"]
    levels = set()
    for node in ast.walk(mod.tree):
        if isinstance(node, ast.Dict):
            for k, v in zip(node.keys, node.values):
                if isinstance(k, ast.Constant) and k.value == "level" and isinstance(v, ast.Constant) and isinstance(v.value, str):
                    levels.add(v.value)
    _wrappers.row(chk, "_log_worker:levels-in-use-found", bool(levels), sorted(levels), found)
    fn = ex.func("helpers", "_log_worker")
    for lv in sorted(levels):
        st = X.State()
        msg = {"level": Const(lv), "text": Const("text")}
        lq = st.new_obj("$queue", {"items": (), "feed": (msg, Const(None)), "closed": False})
        try:
            outs = ex.call_function(fn, [lq], {}, st)
        except X.Unsupported as e:
            chk.undecided.append(("_log_worker[%s]" % lv, "unsupported construct in glue: %s" % e))
            continue
        ok = bool(outs) and all(o.kind == "return" for o in outs)

        def found(lv=lv):
            # the real function, in this process, on a real queue
            import queue as _q

            helpers = chk.module("helpers")
            q = _q.Queue()
            q.put({"level": lv, "text": "text"})
            q.put(None)
            try:
                helpers._log_worker(q)
            except Exception as e:
                return {"key": "_log_worker on a queue holding {'level': %r, 'text': ...} and the pill" % lv, "observed": "raised %s: %s" % (type(e).__name__, e), "expected": "logs the message and returns at the pill", "how": "real function, in-process queue"}
            return None

        _wrappers.row(chk, "_log_worker:survives-a-%s-message-and-stops-at-the-pill" % lv, ok, [(o.kind, getattr(_glue.exc_type(o.state, o.value), "__name__", None)) for o in outs if o.kind != "return"], found)


def _vars(f):
    out, todo = set(), [f]
    while todo:
        t = todo.pop()
        if z3.is_const(t) and t.decl().kind() == z3.Z3_OP_UNINTERPRETED:
            out.add(t)
        todo.extend(t.children())
    return out


def run(chk):
    def found():
        return None

    def factory(hooks):
        return _helpers.make_exec(chk, hooks)

    ex = factory({("process-start",): C08.start_hook})
    try:
        C08.check_worker(chk, ex, found, True, 3, "3 items, callback may raise")
    except X.Unsupported as e:
        chk.undecided.append(("_worker", "unsupported construct in glue: %s" % e))
    for f in (check_monitor, check_merge_exit, check_log_worker):
        try:
            f(chk, factory, found)
        except X.Unsupported as e:
            chk.undecided.append((f.__name__, "unsupported construct in glue: %s" % e))
    # "every other item's full contribution, n_records() counting the successful items" needs the
    # merges at the end to sum tables and both bookkeeping counters: every accepting path of every
    # merge() reaches its merge kernel
    from . import C15

    C15.merge_glue(chk, ["CountMinLinear", "CountMinLog16", "CountMinLog8", "HyperLogLog", "HeavyHitters"])
    # the handler in the worker loop: catches Exception (not narrower), resets n_recs
    import ast

    w = ex.func("helpers", "_worker").node
    hs = [h for n in ast.walk(w) if isinstance(n, ast.Try) for h in n.handlers if any(isinstance(x, ast.Call) for x in ast.walk(n.body[0]))]
    chk.assumptions.update(glue.ASSUMED)
    chk.assumptions.add("ASSUMED: Process.exitcode is None while running and then the final code (stable); Queue.close() then put() raises ValueError; kill() terminates the process")
    chk.assumptions.add("NOT DECIDED: termination / 'never hangs' (liveness; OS processes, queues) - only the safety parts are proved")
    chk.trusted.append("front end B (skv/pyexec.py)")
    chk.notes.append("_worker: on every subset of raising items the callback is still attempted once per item in order, a raising item contributes 0 records and the loop goes on, the pill branch accounts exactly the sum of the successful returns. parallel_add: for symbolic worker exit codes a normal return implies every worker exited with code 0; a non-zero code leads to kill + queue close and the function ends with an exception (put on a closed queue). parallel_merging: a merge worker with a negative exit code raises RuntimeError.")


def replay(path):
    doc = json.load(open(path))
    print(json.dumps(doc.get("replay") or doc.get("detail"), indent=1)[:2000])
    return 1
