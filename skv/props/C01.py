"""C01 - linear count-min: true <= estimate <= collision bound on every history."""
import z3

from . import _cm
from ..lemmas_cm import lemmas_c01

KERNELS = ["countmin._query_linear", "countmin._add_linear", "countmin._merge_linear"]
from . import _glue, _oracle


def run(chk):
    cone = _cm.cone("w-")  # property-derived clauses only: plain (non-conservative) updating keeps C01
    only = _cm.only_strength("w-")
    for q in KERNELS:
        filt = None if q.endswith("_merge_linear") else cone
        chk.kernel(q, clause_filter=filt, replayer=_cm.make_replayer(q, filt, None if filt is None else only))
    lem, hy_add, hy_merge = lemmas_c01()
    for name, hyps, goal in lem:
        chk.prove("lemma:" + name, hyps, goal)
    chk.cover("I1 + add clauses", hy_add)
    chk.cover("I1 + merge clauses", hy_merge)
    # canary: the lower bound with an off-by-one (estimate >= true + 1) must not be provable
    name, hyps, goal = [l for l in lem if l[0] == "c01:estimate>=true"][0]
    chk.prove("canary:c01:estimate>=true+1", hyps + [z3.Int("depth") == 1, z3.Int("width") == 1], z3.Int("res") >= z3.Function("f", z3.IntSort(), z3.IntSort())(z3.Int("key")) + 1, expect="refuted")
    chk.kernel("countmin._add_ngram_linear")
    _glue.glue_part(chk, ["CountMinLinear"], {"add", "query", "getitem", "update", "add_ngram", "update_ngram"}, lambda: _oracle.c01_history(chk, 200))
    from . import C08, C10

    C08.merge_tree_part(chk, ("cms",))  # 'merges in any tree' include the tree the library builds
    C10.part(chk, ["CountMinLinear"])  # the save/load step of a history: same parameters and table
    hn = 30 if chk.tier == "quick" else 1500
    hb = _oracle.c01_history(chk, hn)
    if hb:
        chk.violation("CountMinLinear:bounded:history-oracle", {"verdict": "bounded oracle failed"}, hb)
    chk.bounded_standin("random histories on the real CountMinLinear (adds incl. multiplicities > 2^32, dict/list updates, ngrams, merges, save/load): true <= estimate <= collision bound", "%d histories, widths 1..5, depths 1..3" % hn, hn, int(bool(hb)))
    _cm.crosscheck_linear(chk)
    n = 25 if chk.tier == "quick" else 600
    cases, bad = _cm.runtime_search(chk, KERNELS, n, only=None)
    if bad and any(c.startswith("w-") or c[:2] != "x-" for c in bad["violated_clauses"]):
        chk.violation("countmin:runtime:contracts", {"verdict": "runtime contract check failed"}, bad)
    chk.bounded_standin("contract clauses evaluated on random executions of the real linear kernels", "tables up to 3x4, values near 2^32-1, %d runs" % cases, cases, 1 if bad else 0)
    chk.notes.append("history induction (trusted meta-theorem): init + add-preserves + merge-preserves establish I1 in every reachable state; the query lemmas give the property. The requested multiplicity V is arbitrary (>= 0); the cap min(V, 2^32-1) of CountMinLinear.add is part of the add lemmas' hypotheses and is a glue obligation (front end B).")
    chk.assumptions.add("S(r,c) (ghost) is the sum of f over the keys mapping to cell (r,c) (meta-fact)")
    chk.assumptions.add("operands of merge do not alias")


def replay(path):
    return _cm.replay_file(path)
