"""Shared machinery for the heavy-hitter properties."""
import random

import numpy as np

from ..contract import REGISTRY
from ..runtime import run_and_eval
from ..crosscheck import crosscheck
from . import _cm

MAX32 = (1 << 32) - 1
KERNELS = ["heavyhitters._add", "heavyhitters._merge", "heavyhitters._max_count"]
ARGS = {
    "heavyhitters._add": ["lhh", "lhh_count", "key_lens", "n_added_records", "width", "depth", "max_key_len", "uint_maxval", "key", "value"],
    "heavyhitters._max_count": ["lhh", "lhh_count", "key_lens", "width", "depth", "max_key_len", "key", "key_len"],
    "heavyhitters._merge": ["lhh", "lhh_count", "key_lens", "n_added_records", "width", "depth", "uint_maxval", "other_lhh", "other_lhh_count", "other_key_lens", "other_n_added_records"],
    "heavyhitters._add_ngram": ["lhh", "lhh_count", "key_lens", "n_added_records", "width", "depth", "max_key_len", "uint_maxval", "key", "ngram"],
}
KEYS = [b"", b"a", b"a\x00", b"\x00", b"\x00\x00", b"ab", b"ab\x00", b"abc", b"\xff\x80", b"abcd", b"abcde"]


def table(rng, d, w, mkl):
    lhh = np.zeros((d, w, mkl), np.uint8)
    cnt = np.zeros((d, w), np.uint32)
    kl = np.zeros((d, w), np.uint8)
    for r in range(d):
        for c in range(w):
            k = rng.choice(KEYS)[:mkl]
            lhh[r, c, : len(k)] = np.frombuffer(k, np.uint8)
            kl[r, c] = len(k)
            cnt[r, c] = rng.choice([0, 0, 1, 2, 5, MAX32, MAX32 - 1, MAX32 - 3, rng.randrange(1 << 32)])
    return lhh, cnt, kl


def gen_case(rng, q):
    d, w, mkl = rng.choice([(1, 1, 2), (1, 1, 3), (2, 2, 2), (2, 1, 4), (2, 3, 3)])
    lhh, cnt, kl = table(rng, d, w, mkl)
    olhh, ocnt, okl = table(rng, d, w, mkl)
    key = rng.choice(KEYS)
    if q.endswith("_max_count"):
        key = key[:mkl]
    vals = {"lhh": lhh, "lhh_count": cnt, "key_lens": kl, "other_lhh": olhh, "other_lhh_count": ocnt, "other_key_lens": okl, "n_added_records": np.array([rng.choice([0, 9, (1 << 64) - 2]), 4], np.uint64), "other_n_added_records": np.array([3, 1], np.uint64), "width": w, "depth": d, "max_key_len": mkl, "uint_maxval": MAX32, "key": key, "key_len": len(key), "value": rng.choice([0, 1, 2, 3, 7, MAX32, MAX32 - 1]), "ngram": rng.choice([1, 2, 3, 5])}
    return [vals[n] for n in ARGS[q]]


def runtime_search(chk, qualnames, n):
    rng = random.Random(chk.seed + 17)
    cases = 0
    for q in qualnames:
        mod, fn = q.split(".")
        disp = getattr(chk.module(mod), fn)
        for _ in range(n):
            args = gen_case(rng, q)
            bad, why, after = run_and_eval(disp, REGISTRY[q], ARGS[q], args)
            cases += 1
            if bad:
                return cases, {"key": "%s%s" % (q, str(_cm.jsonable(args))[:400]), "function": "sketchnu." + q, "arg_names": ARGS[q], "args": _cm.jsonable(args), "violated_clauses": bad, "observed": (_cm.jsonable(after[0]) + [after[1]]) if after else None, "how": "runtime-contract search"}
    return cases, None


def make_replayer(q):
    cache = {}

    def rp(chk, bad, tir, contract):
        if "r" not in cache:
            cache["r"] = runtime_search(chk, [q], 30)[1]
        return cache["r"]

    return rp


def kernels(chk, which=KERNELS):
    for q in which:
        chk.kernel(q, replayer=make_replayer(q))


def crosscheck_hh(chk):
    hh = chk.module("heavyhitters")
    rng = random.Random(chk.seed + 4)
    for q in KERNELS:
        fn = q.split(".")[1]
        crosscheck(chk, getattr(hh, fn), [gen_case(rng, q) for _ in range(5)], fn)


def c18_part(chk):
    from ..lemmas_hh import lemmas_c18

    kernels(chk, ["heavyhitters._add", "heavyhitters._merge"])
    for name, hyps, goal in lemmas_c18():
        chk.prove("lemma:" + name, hyps, goal)
