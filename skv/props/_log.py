"""Bounded float stand-ins and run-time contract evaluation for the log-counter kernels.
Everything here is labelled bounded in the evidence and is never counted as proved."""
import math
import random

import numpy as np

from ..contract import REGISTRY
from ..runtime import run_and_eval
from . import _cm

CONFIGS8 = [(2**32 - 1, 15), (300, 15), (1000, 100), (100000, 0), (2**40, 200), (70000, 250)]
CONFIGS16 = [(2**32 - 1, 1023), (100000, 1023), (2**40, 0), (10**6, 60000)]

ARGS = {
    "countmin._log_counter": ["counter", "num_reserved", "uint_maxval", "base", "rand_nums", "rand_ptr", "value"],
    "countmin._add_log16": ["cms", "n_added_records", "buckets", "width", "depth", "uint_maxval", "num_reserved", "base", "rand_nums", "rand_ptr", "key", "value"],
    "countmin._add_log8": ["cms", "n_added_records", "buckets", "width", "depth", "uint_maxval", "num_reserved", "base", "rand_nums", "rand_ptr", "key", "value"],
    "countmin._merge_log16": ["cms", "other_cms", "width", "depth", "max_count", "uint_maxval", "num_reserved", "base", "n_added_records", "other_n_added_records"],
    "countmin._merge_log8": ["cms", "other_cms", "width", "depth", "max_count", "uint_maxval", "num_reserved", "base", "n_added_records", "other_n_added_records"],
}
INT_CLAUSES = ("n_added", "n_records", "w-range", "w-exact-reserved", "w-reserved-floor", "w-mono", "w-frame", "w-ceiling", "x-cells", "x-buckets", "ptr<=2048", "x-n_added", "x-n_records", "w-absorbing")


def _pow():
    from numba import njit

    @njit
    def p(b, x):
        return b**x

    return p


def find_base(chk, mc, nr, um):
    cm = chk.module("countmin")
    return float(cm._find_base(np.uint64(mc), nr, um))


def one_step_law(chk, quick):
    """every counter value x configurations x draws just below / at / above base**-(c - nr) on the
    real _log_counter (value = 1)"""
    cm = chk.module("countmin")
    jp = _pow()
    cases = fails = 0
    first = None
    for um, cfgs in ((255, CONFIGS8), (65535, CONFIGS16 if not quick else CONFIGS16[:2])):
        for mc, nr in cfgs:
            try:
                base = find_base(chk, mc, nr, um)
            except ValueError:
                continue
            step = 1 if (um == 255 or not quick) else 7
            batch = np.zeros(2048)
            for c in list(range(0, um + 1, step)) + [nr - 1, nr, nr + 1, um - 1, um]:
                if c < 0 or c > um:
                    continue
                thr = float(jp(base, -(float(c) - float(nr)))) if c >= nr else 1.0
                draws = [np.nextafter(thr, 0.0), thr, np.nextafter(thr, 2.0)] if nr <= c < um else [0.5]
                for d in draws:
                    if not 0.0 <= d < 1.0:
                        continue
                    for ptr in (7, 2047):
                        batch[ptr] = d
                        r0, r1 = cm._log_counter(c, nr, um, base, batch, ptr, 1)
                        if c >= um:
                            want, wptr = c, ptr
                        elif c < nr:
                            want, wptr = c + 1, ptr
                        else:
                            want, wptr = c + (1 if d < thr else 0), ptr + 1
                        cases += 1
                        if (int(r0), int(r1)) != (want, wptr):
                            fails += 1
                            if first is None:
                                first = {"key": "_log_counter(c=%d,nr=%d,umax=%d,max_count=%d,draw=%r)" % (c, nr, um, mc, float(d)), "function": "sketchnu.countmin._log_counter", "args": {"counter": c, "num_reserved": nr, "uint_maxval": um, "base": base, "draw": float(d), "rand_ptr": ptr, "threshold base**-(c-nr)": thr}, "expected": [want, wptr], "observed": [int(r0), int(r1)], "how": "bounded float stand-in"}
    return cases, fails, first


def rand_freshness(chk):
    """_rand: consecutive calls return batch[0..2047] in order, then a *new* batch; no index is reused"""
    cm = chk.module("countmin")
    batch = np.arange(2048, dtype=np.float64) / 4096.0
    orig = batch.copy()
    ptr = 0
    seen = []
    for i in range(2048):
        v, ptr = cm._rand(batch, ptr)
        seen.append(float(v))
    ok = seen == orig.tolist() and int(ptr) == 2048 and np.array_equal(batch, orig)
    v, ptr2 = cm._rand(batch, ptr)
    ok = ok and int(ptr2) == 1 and not np.array_equal(batch, orig) and float(v) == float(batch[0]) and bool(np.all((batch >= 0) & (batch < 1)))
    return ok


def decoded_table(chk, um, nr, base):
    cm = chk.module("countmin")
    return np.array([cm._counter2value(c, nr, base) for c in range(um + 1)], dtype=np.float64)


def merge_oracle(dec, a, b, nr, mc, um):
    """nearest-counter oracle (vectorised); returns (expected, tie mask)"""
    v = dec[a] + dec[b]
    lo = np.searchsorted(dec, v, side="right") - 1
    lo = np.clip(lo, 0, um - 1)
    hi = lo + 1
    dl, dh = v - dec[lo], dec[hi] - v
    near = np.where(dl <= dh, lo, hi)
    tie = np.abs(dl - dh) <= 1e-9 * np.maximum(dec[hi] - dec[lo], 1e-300)
    exp = np.where(v <= nr, (a.astype(np.int64) + b.astype(np.int64)), np.where(v >= mc, um, near))
    return exp, tie, lo, hi


def merge_standin(chk, quick):
    cm = chk.module("countmin")
    rng = np.random.default_rng(chk.seed + 5)
    cases = fails = 0
    first = None
    plan = []
    for mc, nr in CONFIGS8:
        plan.append((255, np.uint8, cm._merge_log8, mc, nr, "all"))
    for i, (mc, nr) in enumerate(CONFIGS16):
        plan.append((65535, np.uint16, cm._merge_log16, mc, nr, "empty"))
        plan.append((65535, np.uint16, cm._merge_log16, mc, nr, 1000000 if (i == 0 or not quick) else 200000))
    for um, dt, kern, mc, nr, mode in plan:
        try:
            base = find_base(chk, mc, nr, um)
        except ValueError:
            continue
        dec = decoded_table(chk, um, nr, base)
        if mode == "all":
            a = np.repeat(np.arange(um + 1), um + 1).astype(dt)
            b = np.tile(np.arange(um + 1), um + 1).astype(dt)
        elif mode == "empty":
            a = np.arange(um + 1).astype(dt)
            b = np.zeros(um + 1, dt)
        else:
            a = rng.integers(0, um + 1, mode).astype(dt)
            b = rng.integers(0, um + 1, mode).astype(dt)
            # stress the ceiling and the reserved boundary as well
            a[: mode // 10] = rng.integers(max(0, um - 40), um + 1, mode // 10)
            b[mode // 10 : mode // 5] = rng.integers(0, min(um, nr + 3) + 1, mode // 10)
        n = a.size
        A, B = a.reshape(1, n).copy(), b.reshape(1, n).copy()
        nar, onar = np.array([3, 1], np.uint64), np.array([4, 2], np.uint64)
        B0 = B.copy()
        kern(A, B, n, 1, mc, um, nr, base, nar, onar)
        exp, tie, lo, hi = merge_oracle(dec, a.astype(np.int64), b.astype(np.int64), nr, mc, um)
        got = A.reshape(-1).astype(np.int64)
        bad = (got != exp) & ~(tie & ((got == lo) | (got == hi)))
        cases += n
        other_changed = not np.array_equal(B, B0)
        counters_bad = nar.tolist() != [7, 3] or onar.tolist() != [4, 2]
        # consequences stated by the property: never below either input; empty is the identity
        below = got < np.maximum(a, b).astype(np.int64)
        bad |= below
        if bad.any() or other_changed or counters_bad:
            fails += int(bad.sum()) + int(other_changed) + int(counters_bad)
            if first is None:
                i = int(np.argmax(bad)) if bad.any() else 0
                first = {"key": "merge_log(umax=%d,max_count=%d,nr=%d,a=%d,b=%d)" % (um, mc, nr, int(a[i]), int(b[i])), "function": "sketchnu.countmin._merge_log%d" % (8 if um == 255 else 16), "args": {"uint_maxval": um, "max_count": mc, "num_reserved": nr, "base": base, "a": int(a[i]), "b": int(b[i])}, "expected": int(exp[i]), "observed": int(got[i]), "decoded": [float(dec[a[i]]), float(dec[b[i]])], "other_modified": other_changed, "counters_wrong": counters_bad, "how": "bounded float stand-in (%s)" % mode}
    return cases, fails, first


def find_base_grid(chk, quick):
    cm = chk.module("countmin")
    cases = fails = 0
    first = None
    for um in (255, 65535):
        mcs = [300, 301, 1000, 65535, 65536, 70000, 10**5, 10**6, 2**32 - 1, 2**32, 2**32 + 5000, 10**12, 2**40, 2**53, 2**63 - 1, 2**63]
        nrs = sorted(set([0, 1, 2, 15, 100, 200, 250, 253, 254, 1023, 30000, 60000, 65000, 65533, 65534, um - 1, um // 2]))
        if not quick:
            mcs += [2**k + d for k in range(9, 63, 3) for d in (-1, 0, 1)]
            nrs = sorted(set(nrs + list(range(0, um, max(1, um // 40)))))
        for mc in mcs:
            for nr in nrs:
                if nr >= um:
                    continue
                cases += 1
                try:
                    b = float(cm._find_base(np.uint64(mc), nr, um))
                except ValueError:
                    continue
                except Exception as e:
                    fails += 1
                    first = first or {"key": "_find_base(%d,%d,%d) raises %s" % (mc, nr, um, type(e).__name__), "function": "sketchnu.countmin._find_base", "args": [mc, nr, um], "expected": "a base or ValueError", "observed": type(e).__name__, "how": "bounded grid"}
                    continue
                K = um - nr
                val = float(cm._counter2value(um, nr, b)) if um == 65535 else float(cm._counter2value(um, nr, b))
                ok = b >= 1.000000001 and abs(val - mc) <= 1e-6 * mc
                if not ok:
                    fails += 1
                    first = first or {"key": "_find_base(%d,%d,%d)" % (mc, nr, um), "function": "sketchnu.countmin._find_base", "args": [mc, nr, um], "expected": "ceiling decodes to max_count (rel 1e-6) or ValueError", "observed": {"base": b, "decoded_ceiling": val}, "how": "bounded grid"}
    return cases, fails, first


def gen_log_case(rng, q):
    um = 255 if q.endswith("8") else 65535
    if q.endswith("_log_counter"):
        um = rng.choice([255, 65535])
    nr = rng.choice([0, 3, 15, um - 1, um // 2])
    base = 1.0 + rng.choice([1e-3, 0.05, 0.5])
    d, w = rng.choice([(1, 1), (2, 2), (2, 3), (3, 2)])
    near = [0, 1, nr, max(nr - 1, 0), min(nr + 1, um), um, um - 1, rng.randrange(um + 1)]
    dt = np.uint8 if um == 255 else np.uint16
    cms = np.array([[rng.choice(near) for _ in range(w)] for _ in range(d)], dt)
    other = np.array([[rng.choice(near) for _ in range(w)] for _ in range(d)], dt)
    batch = np.array([rng.random() for _ in range(2048)])
    vals = {"cms": cms, "other_cms": other, "n_added_records": np.array([rng.choice([0, 5, (1 << 64) - 2]), 9], np.uint64), "other_n_added_records": np.array([3, 1], np.uint64), "buckets": np.zeros(d, np.uint64), "width": w, "depth": d, "uint_maxval": um, "num_reserved": nr, "base": base, "rand_nums": batch, "rand_ptr": rng.choice([0, 5, 2047, 2048]), "key": bytes(rng.randrange(256) for _ in range(rng.choice([0, 1, 5]))), "value": rng.choice([0, 1, 2, 3, 20, 300]), "counter": rng.choice(near), "max_count": rng.choice([300, 2**32 - 1])}
    return [vals[n] for n in ARGS[q]]


def runtime_search(chk, qualnames, n):
    rng = random.Random(chk.seed + 13)
    cases = 0
    for q in qualnames:
        mod, fn = q.split(".")
        disp = getattr(chk.module(mod), fn)
        for _ in range(n):
            args = gen_log_case(rng, q)
            bad, why, after = run_and_eval(disp, REGISTRY[q], ARGS[q], args, only=lambda c: c in INT_CLAUSES)
            cases += 1
            if bad:
                return cases, {"key": "%s%s" % (q, str(_cm.jsonable(args))[:300]), "function": "sketchnu." + q, "arg_names": ARGS[q], "args": _cm.jsonable(args), "violated_clauses": bad, "how": "runtime-contract search (integer clauses)"}
    return cases, None
