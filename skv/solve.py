"""Discharge obligations with z3 (python API); serial or in a process pool via SMT-LIB text."""
import time
import z3

DEFAULT_TIMEOUT_MS = 30000


def _mk_solver(ob, timeout_ms):
    s = z3.Solver()
    s.set("timeout", timeout_ms)
    for h in ob.hyps:
        s.add(h)
    s.add(z3.Not(ob.goal))
    return s


def discharge(ob, timeout_ms=DEFAULT_TIMEOUT_MS, want_model=True):
    t = time.time()
    g = z3.simplify(ob.goal) if not isinstance(ob.goal, bool) else z3.BoolVal(ob.goal)
    if z3.is_true(g):
        ob.result, ob.backend, ob.seconds = "proved", "simplifier", time.time() - t
        return ob
    s = _mk_solver(ob, timeout_ms)
    r = s.check()
    ob.seconds = time.time() - t
    ob.backend = "z3"
    if r == z3.unsat:
        ob.result = "proved"
    elif r == z3.sat:
        ob.result = "refuted"
        if want_model:
            ob.model = s.model()
    else:
        ob.result = "open"
        ob.reason = s.reason_unknown()
    return ob


def discharge_all(obs, timeout_ms=DEFAULT_TIMEOUT_MS):
    for ob in obs:
        discharge(ob, timeout_ms)
    return obs
