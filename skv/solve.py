"""Discharge obligations with z3 under a *deterministic* resource budget (rlimit) and a generous
wall-clock cap.  z3's `unknown`s can be handed to cvc5 (SMT-LIB text) by callers that want it.

result: 'proved' (unsat) | 'refuted' (sat, model kept) | 'open' (unknown; reason says why)
reason for open: 'rlimit-exhausted' (deterministic: same on every machine load),
                 'timeout' (wall clock: never turned into a violation), or z3's own reason
                 (e.g. incomplete quantifiers).
"""
import os
import subprocess
import tempfile
import time

import z3

DEFAULT_RLIMIT = 150_000_000  # ~30 s of z3 work on this box; budgets from the baseline override it
MIN_RLIMIT = 25_000_000
WALL_CAP_MS = 180_000


MAX_RLIMIT = 300_000_000
RETRY_RLIMIT = 30_000_000
SMALL_WALL_MS = 60_000  # generous: a verdict must not depend on the machine's load (the rlimit is the real bound)
ABSTRACT_WALL_MS = 120_000
FIRST_RLIMIT = 3_000_000
FIRST_WALL_MS = 20_000
FAILED_SECONDS = [0.0]  # wall time this process has spent on attempts that did not prove
FAILED_SECONDS_CAP = 600.0


def budget_for(baseline_units):
    """deterministic budget: 20x what the obligation needed on the unchanged tree, at least 25 M
    units (~5 s), at most 300 M (~1 min) so that a failing tree cannot stall a check for long"""
    if not baseline_units:
        return DEFAULT_RLIMIT
    return min(MAX_RLIMIT, max(MIN_RLIMIT, 20 * int(baseline_units)))


class _Sub:
    pass


def _count():
    """z3's 'rlimit count' statistic is cumulative over the process (the rlimit *parameter* is per
    check); read the current value with a trivial query so that consumption can be reported per
    obligation"""
    s = z3.Solver()
    s.add(z3.Int("skv!probe") > 0)
    s.check()
    st = s.statistics()
    return int(st.get_key_value("rlimit count")) if "rlimit count" in st.keys() else 0


def discharge(ob, timeout_ms=None, want_model=True, rlimit=None, _split=True, _quick_only=False):
    t = time.time()
    g = ob.goal if not isinstance(ob.goal, bool) else z3.BoolVal(ob.goal)
    gs = z3.simplify(g)
    if z3.is_true(gs):
        ob.result, ob.backend, ob.seconds, ob.units = "proved", "simplifier", time.time() - t, 0
        return ob
    if _split and z3.is_implies(g) and z3.is_and(g.arg(1)) and g.arg(1).num_args() > 1:
        g = z3.And(*[z3.Implies(g.arg(0), c) for c in g.arg(1).children()])
    if _split and z3.is_and(g) and g.num_args() > 1:
        # a conjunctive goal is discharged conjunct by conjunct (each against the same hypotheses):
        # much more stable than one query, and a refuted conjunct still yields a model
        res, units, model, reason = "proved", 0, None, ""
        for c in g.children():
            sub = _Sub()
            sub.hyps, sub.goal = ob.hyps, c
            discharge(sub, timeout_ms, want_model, rlimit, _split=True, _quick_only=_quick_only)
            units = max(units, getattr(sub, "units", 0) or 0)
            if sub.result == "refuted":
                res, model = "refuted", getattr(sub, "model", None)
                break
            if sub.result != "proved":
                res, reason = "open", sub.reason
        ob.result, ob.backend, ob.seconds, ob.units, ob.model, ob.reason = res, "z3", time.time() - t, units, model, reason
        return ob
    budget = rlimit or DEFAULT_RLIMIT
    # attempt schedule (deterministic): four seeds at a small budget - other seeds often succeed on
    # mixed real/integer obligations - then one attempt at the full budget
    small = min(budget, RETRY_RLIMIT)
    plan = [(0, small, SMALL_WALL_MS), (1, small, SMALL_WALL_MS), (2, small, SMALL_WALL_MS), (3, small, SMALL_WALL_MS)] if not (rlimit and rlimit < MIN_RLIMIT) else [(0, budget, WALL_CAP_MS)]
    if budget > small:
        plan.append((0, budget, WALL_CAP_MS))
    if _quick_only or FAILED_SECONDS[0] > FAILED_SECONDS_CAP:
        # another instance of this obligation is already open, or this run has already spent a long
        # time on obligations that do not verify: one small attempt (can still refute)
        plan = plan[:1]
    walled = []  # attempts that ended on the wall clock, not on their rlimit (load-dependent)

    def _note(sol, c0_, lim_, what):
        try:
            used = int(sol.statistics().get_key_value("rlimit count")) - c0_
        except Exception:
            used = 0
        if used < lim_ - 1000 and ("canceled" in sol.reason_unknown() or "timeout" in sol.reason_unknown()):
            walled.append(what)

    # attempt 0: a short one as is (most obligations need well under a million units)
    if small > FIRST_RLIMIT:
        plan.insert(0, (0, FIRST_RLIMIT, FIRST_WALL_MS))
        seed, lim, wall = plan[0]
        s = z3.Solver()
        s.set("timeout", wall)
        s.set("rlimit", lim)
        for h in ob.hyps:
            s.add(h)
        s.add(z3.Not(g))
        c0 = _count()
        r = s.check()
        budget_used = lim
        if r != z3.unknown:
            plan = []
        else:
            _note(s, c0, lim, "first")
            plan = plan[1:]
    # attempt 1: nonlinear operations abstracted to uninterpreted functions (sound for `unsat`)
    cache, any_change = {}, False
    ah = []
    for h in (ob.hyps if plan else []):
        h2, ch = abstract_nonlinear(h if not isinstance(h, bool) else z3.BoolVal(h), cache)
        any_change |= ch
        ah.append(h2)
    if plan:
        g2, ch = abstract_nonlinear(g, cache)
        any_change |= ch
    if any_change and plan:
        s = z3.Solver()
        s.set("timeout", ABSTRACT_WALL_MS)
        s.set("rlimit", small)
        for h in ah:
            s.add(h)
        s.add(z3.Not(g2))
        c0 = _count()
        sa = s
        ra = sa.check()
        if ra == z3.unknown:
            _note(sa, c0, small, "abstraction")
        if ra == z3.unsat:
            ob.seconds, ob.backend, ob.result = time.time() - t, "z3 (nonlinear terms abstracted)", "proved"
            try:
                ob.units = max(0, int(s.statistics().get_key_value("rlimit count")) - c0)
            except Exception:
                ob.units = 0
            return ob
    # attempt 2: case split on an integer constant whose hypotheses bound it to a small range (e.g. the
    # precision p of a HyperLogLog, 7..16): each case is discharged with the value substituted
    if plan and not _quick_only:
        cs = _case_split(ob.hyps, g, small)
        if cs is not None:
            ob.seconds, ob.backend, ob.result, ob.units = time.time() - t, "z3 (case split on %s)" % cs[0], "proved", cs[1]
            return ob
    for seed, lim, wall in plan:
        s = z3.Solver()
        s.set("timeout", min(timeout_ms or wall, wall))
        s.set("rlimit", lim)
        if seed:
            s.set("random_seed", seed)
        for h in ob.hyps:
            s.add(h)
        s.add(z3.Not(g))
        c0 = _count()
        r = s.check()
        budget_used = lim
        if r != z3.unknown:
            break
        if (seed, lim, wall) != plan[-1]:
            _note(s, c0, lim, "seed %d" % seed)
    ob.seconds = time.time() - t
    ob.backend = "z3"
    if r != z3.unsat:
        FAILED_SECONDS[0] += ob.seconds
    try:
        st = s.statistics()
        ob.units = max(0, (int(st.get_key_value("rlimit count")) if "rlimit count" in st.keys() else c0) - c0)
    except Exception:
        ob.units = 0
    if r == z3.unsat:
        ob.result = "proved"
    elif r == z3.sat:
        ob.result = "refuted"
        if want_model:
            ob.model = s.model()
    else:
        ob.result = "open"
        why = s.reason_unknown()
        if ob.units >= budget_used - 1000 and walled:
            # an earlier attempt was cut by the wall clock: with less load it might have succeeded,
            # so this is not a deterministic failure - undecided, never a violation
            why = "timeout (attempts cut by the wall clock: %s)" % ", ".join(walled)
        elif ob.units >= budget_used - 1000:
            why = "rlimit-exhausted (%d units)" % budget_used
        elif "canceled" in why or "timeout" in why:
            why = "timeout"
        ob.reason = why
    return ob


def discharge_all(obs, timeout_ms=None, budgets=None):
    """instances of one aggregated obligation (same name, different paths) are discharged until the
    obligation is decided: after a refuted instance the remaining instances are not attempted, after
    an open one the next three get one small attempt each and the rest are not attempted (the obligation has already failed) - keeps a failing tree from burning the budget"""
    budgets = budgets or {}
    refuted, opens = set(), {}
    for ob in obs:
        if ob.name in refuted or opens.get(ob.name, 0) >= 4:
            ob.result, ob.reason, ob.backend = "open", "not attempted: another instance of this obligation already failed", "skipped"
            continue
        discharge(ob, timeout_ms, rlimit=budget_for(budgets.get(ob.name)), _quick_only=opens.get(ob.name, 0) >= 1)
        if ob.result == "refuted":
            refuted.add(ob.name)
        elif ob.result != "proved":
            opens[ob.name] = opens.get(ob.name, 0) + 1
    return obs


def cvc5_check(ob, timeout_s=60):
    """second opinion on a z3 `unknown`: returns 'unsat' | 'sat' | 'unknown'"""
    s = z3.Solver()
    for h in ob.hyps:
        s.add(h)
    s.add(z3.Not(ob.goal))
    txt = s.to_smt2()
    with tempfile.NamedTemporaryFile("w", suffix=".smt2", delete=False) as f:
        f.write(txt)
        fn = f.name
    try:
        out = subprocess.run(["/usr/bin/cvc5", "--tlimit=%d" % (timeout_s * 1000), fn], capture_output=True, text=True, timeout=timeout_s + 10)
        first = (out.stdout.strip().splitlines() or ["unknown"])[0]
        return first if first in ("sat", "unsat") else "unknown"
    except Exception:
        return "unknown"
    finally:
        os.unlink(fn)


# ---------------------------------------------------------------------------------------------
# sound abstraction of nonlinear arithmetic: every product of two non-numeral terms and every
# quotient / modulus by a non-numeral becomes an application of an uninterpreted function.  Any model
# of the original formula is a model of the abstraction (interpret the functions as the operations),
# so `unsat` for the abstraction proves the original obligation; `sat` means nothing and the
# obligation goes on to the attempts with real arithmetic.  Quantified subformulas are left alone.
_ABS_FUNCS = {}


def _abs_fn(name, *sorts):
    key = (name,) + tuple(str(s) for s in sorts)
    if key not in _ABS_FUNCS:
        _ABS_FUNCS[key] = z3.Function("abs!%s!%s" % (name, "!".join(str(s) for s in sorts[:-1])), *sorts)
    return _ABS_FUNCS[key]


def _is_num(e):
    return z3.is_int_value(e) or z3.is_rational_value(e) or (z3.is_app(e) and e.decl().kind() == z3.Z3_OP_TO_REAL and z3.is_int_value(e.arg(0)))


def abstract_nonlinear(e, cache=None):
    cache = {} if cache is None else cache
    changed = [False]

    def go(t):
        k = t.get_id()
        if k in cache:
            return cache[k]
        if not z3.is_app(t):  # quantifier or bound variable: untouched
            cache[k] = t
            return t
        args = [go(a) for a in t.children()]
        kind = t.decl().kind()
        r = None
        if kind == z3.Z3_OP_MUL and z3.is_arith(t):
            nums = [a for a in args if _is_num(a)]
            rest = [a for a in args if not _is_num(a)]
            if len(rest) >= 2:
                rest.sort(key=lambda a: a.get_id())
                acc = rest[0]
                for a in rest[1:]:
                    acc = _abs_fn("mul", acc.sort(), a.sort(), t.sort())(acc, a)
                for n in nums:
                    acc = n * acc
                r = acc
                changed[0] = True
        elif kind in (z3.Z3_OP_DIV, z3.Z3_OP_IDIV, z3.Z3_OP_MOD, z3.Z3_OP_REM) and z3.is_arith(t) and not _is_num(args[1]):
            nm = {z3.Z3_OP_DIV: "div", z3.Z3_OP_IDIV: "idiv", z3.Z3_OP_MOD: "mod", z3.Z3_OP_REM: "rem"}[kind]
            r = _abs_fn(nm, args[0].sort(), args[1].sort(), t.sort())(args[0], args[1])
            changed[0] = True
        elif kind == z3.Z3_OP_POWER and z3.is_arith(t):
            r = _abs_fn("pow", args[0].sort(), args[1].sort(), t.sort())(args[0], args[1])
            changed[0] = True
        if r is None:
            if all(a.get_id() == c.get_id() for a, c in zip(args, t.children())):
                r = t
            else:
                try:
                    r = t.decl()(*args)
                except Exception:
                    r = t
        cache[k] = r
        return r

    out = go(e)
    return out, changed[0]


def _bounds(hyps):
    """integer constants with a constant lower and upper bound among the (simplified) hypotheses"""
    lo, hi = {}, {}

    def visit(f):
        f = z3.simplify(f)
        if z3.is_and(f):
            for c in f.children():
                visit(c)
            return
        neg = False
        if z3.is_not(f):
            f, neg = f.arg(0), True
        if not (z3.is_le(f) or z3.is_ge(f) or z3.is_lt(f) or z3.is_gt(f)) or f.num_args() != 2:
            return
        a, b = f.arg(0), f.arg(1)
        kind = f.decl().kind()
        if z3.is_int_value(a) and z3.is_const(b) and b.decl().kind() == z3.Z3_OP_UNINTERPRETED:
            a, b = b, a
            kind = {z3.Z3_OP_LE: z3.Z3_OP_GE, z3.Z3_OP_GE: z3.Z3_OP_LE, z3.Z3_OP_LT: z3.Z3_OP_GT, z3.Z3_OP_GT: z3.Z3_OP_LT}[kind]
        if not (z3.is_const(a) and a.decl().kind() == z3.Z3_OP_UNINTERPRETED and z3.is_int(a) and z3.is_int_value(b)):
            return
        v = b.as_long()
        if neg:  # not (x <= v)  ==  x >= v + 1, ...
            kind, v = {z3.Z3_OP_LE: (z3.Z3_OP_GE, v + 1), z3.Z3_OP_GE: (z3.Z3_OP_LE, v - 1), z3.Z3_OP_LT: (z3.Z3_OP_GE, v), z3.Z3_OP_GT: (z3.Z3_OP_LE, v)}[kind]
        if kind == z3.Z3_OP_LT:
            kind, v = z3.Z3_OP_LE, v - 1
        if kind == z3.Z3_OP_GT:
            kind, v = z3.Z3_OP_GE, v + 1
        k = a.get_id()
        if kind == z3.Z3_OP_LE:
            hi[k] = (a, min(v, hi.get(k, (a, v))[1]))
        else:
            lo[k] = (a, max(v, lo.get(k, (a, v))[1]))

    for h in hyps:
        if isinstance(h, bool):
            continue
        try:
            visit(h)
        except Exception:
            pass
    out = []
    for k in lo:
        if k in hi and 0 <= hi[k][1] - lo[k][1] <= 32:
            out.append((lo[k][0], lo[k][1], hi[k][1]))
    out.sort(key=lambda x: x[2] - x[1])
    return out


def _case_split(hyps, g, rlimit):
    bs = _bounds(hyps)
    if not bs:
        return None
    x, a, b = bs[0]
    units = 0
    hs = [h for h in hyps if not isinstance(h, bool)]
    for v in range(a, b + 1):
        sub = [(x, z3.IntVal(v))]
        s = z3.Solver()
        s.set("timeout", SMALL_WALL_MS)
        s.set("rlimit", rlimit)
        for h in hs:
            s.add(z3.simplify(z3.substitute(h, *sub)))
        s.add(z3.Not(z3.simplify(z3.substitute(g, *sub))))
        c0 = _count()
        if s.check() != z3.unsat:
            return None
        try:
            units = max(units, int(s.statistics().get_key_value("rlimit count")) - c0)
        except Exception:
            pass
    return str(x), units
