"""Run-time evaluation of a kernel contract on one concrete execution of the *real* jitted
function (int-mode table kernels).  Used for
  * the bounded stand-in "contracts evaluated on random executions" (never counted as proved),
  * confirming a solver counterexample on the real code (replay),
  * searching a failing input when the solver gives no usable model.
The clauses are the same python generators the prover uses; they are instantiated over concrete
arrays (as if-then-else chains over the cells) and decided by z3 together with the real hash
values of the keys involved."""
import itertools

import numpy as np
import z3

from .lemma import LFrame, _Key
from .contracts.hashes import FH64
from .spec.hashes import fasthash64_py


def arr_fn(a):
    a = np.asarray(a)
    cells = {idx: (z3.RealVal(repr(float(a[idx]))) if a.dtype.kind == "f" else z3.IntVal(int(a[idx]))) for idx in np.ndindex(*a.shape)}
    default = z3.RealVal(0) if a.dtype.kind == "f" else z3.IntVal(0)

    def f(*idx):
        idx = [z3.IntVal(i) if isinstance(i, int) else i for i in idx]
        conc = [z3.simplify(i).as_long() if z3.is_int_value(z3.simplify(i)) else None for i in idx]
        if all(c is not None for c in conc):
            return cells.get(tuple(conc), default)
        t = default
        for cell, v in cells.items():
            t = z3.If(z3.And(*[i == c for i, c in zip(idx, cell)]), v, t)
        return t

    return f, tuple(z3.IntVal(n) for n in a.shape)


class RKey(_Key):
    """concrete byte string: bytes as an if-then-else chain, hash identities per (start, length) slice"""

    def __init__(self, data, facts, max_rows, ids):
        self.data, self._facts, self._rows, self._ids = bytes(data), facts, max_rows, ids
        self.len = z3.IntVal(len(data))
        self.kid = self.slice_kid(None, z3.IntVal(0), self.len)

    def __call__(self, j):
        j = z3.IntVal(j) if isinstance(j, int) else j
        js = z3.simplify(j)
        if z3.is_int_value(js):
            i = js.as_long()
            return z3.IntVal(self.data[i] if 0 <= i < len(self.data) else 0)
        t = z3.IntVal(0)
        for i, bt in enumerate(self.data):
            t = z3.If(j == i, z3.IntVal(bt), t)
        return t

    def slice_kid(self, sem, start, n):
        s0 = z3.simplify(z3.IntVal(start) if isinstance(start, int) else start)
        n0 = z3.simplify(z3.IntVal(n) if isinstance(n, int) else n)
        sub = self.data[s0.as_long() : s0.as_long() + n0.as_long()]
        if sub not in self._ids:
            self._ids[sub] = 1000 + len(self._ids)
            kid = z3.IntVal(self._ids[sub])
            for r in range(self._rows):
                self._facts.append(FH64(kid, z3.IntVal(r)) == fasthash64_py(sub, r))
        return z3.IntVal(self._ids[sub])


def eval_contract(contract, names, pre_args, post_args, res, max_rows=8, only=None):
    """names: argument names; pre_args/post_args: python values before/after the call (arrays copied).
    -> (list of violated clause names, detail)"""
    scalars, arrays, keys, facts, ids = {}, {}, {}, [], {}
    for n, a, b in zip(names, pre_args, post_args):
        if isinstance(a, (bytes, bytearray)):
            keys[n] = RKey(a, facts, max_rows, ids)
        elif isinstance(a, np.ndarray):
            pf, shape = arr_fn(a)
            qf, _ = arr_fn(b)
            arrays[n] = (pf, qf, shape)
        elif isinstance(a, float):
            scalars[n] = z3.RealVal(repr(a))
        else:
            scalars[n] = z3.IntVal(int(a))
    rv = None
    if res is not None:
        if isinstance(res, tuple):
            rv = tuple(z3.RealVal(repr(float(x))) if isinstance(x, float) else z3.IntVal(int(x)) for x in res)
        else:
            rv = z3.RealVal(repr(float(res))) if isinstance(res, float) else z3.IntVal(int(res))
    F = LFrame(contract.mode, scalars, arrays, keys, rv)
    for gname, sort in contract.ghosts(F):
        setattr(F.g, gname, sort(gname + "!rt") if callable(sort) else z3.Const(gname + "!rt", sort))
    reqs = list(contract.requires(F))
    defs = list(contract.ghost_defs(F)) + list(contract.post_defs(F))
    if type(contract).call_defs is not __import__("skv.contract", fromlist=["Contract"]).Contract.call_defs:
        defs += [d for d in contract.call_defs(F)]
    ens = [(n_, f_) for n_, f_ in contract.ensures(F)]
    s = z3.Solver()
    s.set("timeout", 6000)
    for f in facts:
        s.add(f)
    for name, f in reqs:
        s.push()
        s.add(z3.Not(f))
        if s.check() != z3.unsat:
            s.pop()
            return None, "precondition %s does not hold for this input" % name
        s.pop()
    for f in defs:
        s.add(f)
    if s.check() != z3.sat:
        return None, "ghost definitions unsatisfiable on this input"
    bad = []
    for name, f in ens:
        if name.startswith("hint:") or (only is not None and not only(name)):
            continue
        s.push()
        s.add(z3.Not(f))
        r = s.check()
        s.pop()
        if r != z3.unsat:
            bad.append(name)
    return bad, ""


def run_and_eval(disp, contract, names, args, only=None):
    import copy

    pre = [copy.deepcopy(a) for a in args]
    work = [copy.deepcopy(a) for a in args]
    try:
        res = disp(*work)
    except Exception as e:
        return ["raised " + type(e).__name__], "", None
    if isinstance(res, tuple):
        res = tuple(float(x) if isinstance(x, float) else int(x) for x in res)
    elif res is not None:
        res = float(res) if isinstance(res, float) else int(res)
    bad, why = eval_contract(contract, names, pre, work, res, only=only)
    return bad, why, (work, res)
