"""Frames for the lemma layer: the same contract clause generators, instantiated over abstract
pre/post states (uninterpreted functions), so that lemmas are stated over the *contract text*."""
import z3
from .engine import forall, exists
from . import sem as S


class _NS:
    pass


class _Acc:
    def __init__(self, fn, shape):
        self._fn, self.shape = fn, tuple(shape)

    def __call__(self, *idx):
        return self._fn(*idx)


class _Key:
    def __init__(self, kid, length=None):
        self.kid, self.len = kid, length


class LFrame:
    """scalars: name -> term; arrays: name -> (pre_fn, post_fn or None, shape tuple); keys: name -> kid term"""

    def __init__(self, mode, scalars, arrays, keys=None, res=None, ghosts=None):
        self.sem = S.Sem(mode)
        self.pre, self.post, self.g = _NS(), _NS(), _NS()
        for n, t in scalars.items():
            setattr(self, n, t)
        for n, (pre, post, shape) in arrays.items():
            setattr(self.pre, n, _Acc(pre, shape))
            setattr(self, n, getattr(self.pre, n))
            if post is not None:
                setattr(self.post, n, _Acc(post, shape))
        for n, kid in (keys or {}).items():
            setattr(self, n, kid if isinstance(kid, _Key) else _Key(kid))
        for n, t in (ghosts or {}).items():
            setattr(self.g, n, t)
        self.res = res

    def forall(self, bounds, body):
        return forall(self.sem, bounds, body)

    def exists(self, bounds, body):
        return exists(self.sem, bounds, body)

    def local(self, name, default=None):
        return default

    def loop_k(self, ordinal):
        return None

    def locals(self, name):
        return []


def clauses(gen, prefixes=None, names=None):
    """select clauses of a contract generator by strength prefix ('w-', 'x-', '' = unprefixed)"""
    out = []
    for item in gen:
        n, f = item[0], item[1]
        if n.startswith("hint:"):
            continue
        if names is not None:
            if n in names:
                out.append((n, f))
            continue
        strength = n[:2] if n[:2] in ("w-", "x-") else ""
        if prefixes is None or strength in prefixes:
            out.append((n, f))
    return out
