#!/bin/sh
# Offline, idempotent: put z3-solver + jsonschema next to /venv's numba (target dir, git-ignored).
set -e
cd "$(dirname "$0")"
if [ ! -d .deps/z3 ]; then
  /venv/bin/python -m pip install -q --no-index --find-links /opt/veriftools/wheels --target .deps z3-solver jsonschema
fi
mkdir -p evidence replay
