#!/usr/bin/env python3
"""per-instance solver times of one kernel: tools/kernel_times.py heavyhitters._add [name-filter]
(run through ./check's environment:  PYTHONPATH=/verif:/verif/.deps PYTHONHASHSEED=0 /venv/bin/python tools/kernel_times.py ...)"""
import sys, time, json, os
from skv.ctx import Check
from skv import solve
from skv.contract import REGISTRY
from skv.engine import Engine
from skv.extract import typed_ir
import skv.contracts  # noqa

q = sys.argv[1]
flt = sys.argv[2] if len(sys.argv) > 2 else ""
chk = Check("C18", "quick", 1)
modname, fname = q.split(".")
tir = typed_ir(getattr(chk.module(modname), fname))
eng = Engine(tir, REGISTRY[q], REGISTRY)
t = time.time()
obs = eng.run()
print("engine %.1fs, %d obligations" % (time.time() - t, len(obs)))
for o in obs:
    if flt and flt not in o.name:
        continue
    solve.discharge(o, None, rlimit=solve.DEFAULT_RLIMIT)
    if o.seconds > 0.5 or o.result != "proved":
        print("%-60s path=%s %s %.1fs units=%s %s" % (o.name, o.path, o.result, o.seconds, o.units, o.backend))
