#!/bin/bash
# usage: confirm_seed3.sh <ID> <a|b> ; round-7 seeds live in /tmp/seed7/<ID>.out/<x>; results as <ID>m / <ID>n
ID=$1; X=$2
if [ "$X" = "a" ]; then Y=m; else Y=n; fi
SRC=/tmp/seed7/$ID.out/$X
WT=/tmp/seedconfirm/wt-$ID$Y
mkdir -p /tmp/seedconfirm
rm -rf $WT; git -C /repo worktree prune
git -C /repo worktree add --detach $WT HEAD -q || exit 2
cd $WT
cp $SRC/demo.py $WT/demo_seed.py
/venv/bin/python demo_seed.py > /tmp/seedconfirm/$ID$Y.demo_orig.log 2>&1; D0=$?
git apply $SRC/patch.diff || { echo "apply failed" > /tmp/seedconfirm/$ID$Y.result; exit 2; }
/venv/bin/python demo_seed.py > /tmp/seedconfirm/$ID$Y.demo_changed.log 2>&1; D1=$?
/venv/bin/python -m pytest -q -p no:cacheprovider --timeout=900 > /tmp/seedconfirm/$ID$Y.suite.log 2>&1
SUITE=$(tail -1 /tmp/seedconfirm/$ID$Y.suite.log)
if echo "$SUITE" | grep -q failed; then
  # unseeded statistical tests flake now and then: re-run the failing tests alone, three times
  T=$(grep '^FAILED' /tmp/seedconfirm/$ID$Y.suite.log | awk '{print $2}' | tr '\n' ' ')
  : > /tmp/seedconfirm/$ID$Y.rerun
  for i in 1 2 3; do /venv/bin/python -m pytest -q -p no:cacheprovider --timeout=900 $T 2>&1 | tail -1 >> /tmp/seedconfirm/$ID$Y.rerun; done
fi
echo "demo_orig=$D0 demo_changed=$D1 suite=$SUITE" > /tmp/seedconfirm/$ID$Y.result
cd /; git -C /repo worktree remove --force $WT
