#!/usr/bin/env python3
"""(Re)write the block between <!-- SEEDS:BEGIN --> and <!-- SEEDS:END --> in DESIGN.md from
seeded/detection.json and seeded/*/meta.json."""
import json, os, re, glob
V = os.path.dirname(os.path.dirname(os.path.abspath(__file__)))
det = json.load(open(os.path.join(V, "seeded", "detection.json")))
rows = []
for d in sorted(glob.glob(os.path.join(V, "seeded", "C???"))):
    sid = os.path.basename(d)
    meta = json.load(open(os.path.join(d, "meta.json")))
    files = ",".join(os.path.basename(f) for f in meta.get("files", []))
    summ = meta.get("summary", "").replace("|", "/")[:150]
    res = det.get(sid, {})
    cells = []
    for chk, r in sorted(res.items()):
        if not isinstance(r, dict) or "exit" not in r:
            continue
        if r["exit"] == 1:
            how = "obligation" if r["by_obligation"] else "bounded stand-in only"
            first = (r["violations"] or ["?"])[0].replace(" no-failing-input-found", "")[:70]
            cells.append("%s: **caught** (%s; e.g. `%s`)" % (chk, how, first))
        elif r["exit"] == 0:
            cells.append("%s: not affected / not caught" % chk)
        else:
            cells.append("%s: exit %d (%s)" % (chk, r["exit"], (r.get("undecided") or [""])[0][:60]))
    rows.append("| %s | %s | %s | %s |" % (sid, files, summ, "<br>".join(cells)))
block = ["<!-- SEEDS:BEGIN -->", "| seed | file | change (author's words, abridged) | checks run against it |", "|---|---|---|---|"] + rows + ["<!-- SEEDS:END -->"]
p = os.path.join(V, "DESIGN.md")
s = open(p).read()
if "<!-- SEEDS:BEGIN -->" in s:
    s = re.sub(r"<!-- SEEDS:BEGIN -->.*?<!-- SEEDS:END -->", "\n".join(block).replace("\\", "\\\\"), s, flags=re.S)
else:
    s += "\n" + "\n".join(block) + "\n"
open(p, "w").write(s)
print(len(rows), "rows")
