#!/bin/bash
# usage: confirm_seed.sh <ID> <a|b> ; confirms a seeded change in its own scratch worktree (outside /repo and /verif)
# writes /tmp/seedconfirm/<ID><x>.result  (demo_changed=<rc> suite=<summary> demo_orig=<rc>)
ID=$1; X=$2
SRC=/tmp/seed/$ID.out/$X
WT=/tmp/seedconfirm/wt-$ID$X
mkdir -p /tmp/seedconfirm
rm -rf $WT; git -C /repo worktree prune
git -C /repo worktree add --detach $WT HEAD -q || exit 2
cd $WT
cp $SRC/demo.py $WT/demo_seed.py
/venv/bin/python demo_seed.py > /tmp/seedconfirm/$ID$X.demo_orig.log 2>&1; D0=$?
git apply $SRC/patch.diff || { echo "apply failed" > /tmp/seedconfirm/$ID$X.result; exit 2; }
/venv/bin/python demo_seed.py > /tmp/seedconfirm/$ID$X.demo_changed.log 2>&1; D1=$?
/venv/bin/python -m pytest -q -p no:cacheprovider --timeout=900 > /tmp/seedconfirm/$ID$X.suite.log 2>&1
SUITE=$(tail -1 /tmp/seedconfirm/$ID$X.suite.log)
echo "demo_orig=$D0 demo_changed=$D1 suite=$SUITE" > /tmp/seedconfirm/$ID$X.result
cd /; git -C /repo worktree remove --force $WT
