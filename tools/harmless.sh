#!/bin/bash
# usage: tools/harmless.sh <glue|kernels> <ID>...   -> runs the quick checks on a scratch worktree of /repo HEAD
# with harmless/<set>.diff applied (behaviour-preserving rewrites: every check must stay green)
SET=$1; shift
WT=/tmp/harm/harmless-$SET
rm -rf $WT; git -C /repo worktree prune
git -C /repo worktree add --detach $WT HEAD -q || exit 2
git -C $WT apply /verif/harmless/$SET.diff || exit 2
cd /verif
for c in "$@"; do echo $c; done | xargs -P 4 -I{} sh -c "echo \"{}: \$(SKV_REPO=$WT SKV_OUT=/tmp/harm/out-$SET-{} ./check {} 2>&1 | grep -v '^  \|KNOWN' | tail -2 | cut -c1-200 | tr '\n' '|')\""
git -C /repo worktree remove --force $WT
