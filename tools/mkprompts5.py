#!/usr/bin/env python3
"""round-5 seed prompts: /tmp/seed5/<ID>.prompt.txt + scratch worktree /tmp/seed5/<ID>"""
import json, os, subprocess, sys, glob, re
V = os.path.dirname(os.path.dirname(os.path.abspath(__file__)))
tmpl = open("/tmp/seed2/C02.prompt.txt").read()
head, rest = tmpl.split("The property (this is all the specification you get):\n-----\n")
_, tail = rest.split("\n-----\n\nTASK:", 1)
tail = "\n-----\n\nTASK:" + tail.split("IMPORTANT - these ideas have ALREADY")[0]
props = {json.loads(l)["id"]: json.loads(l) for l in open(os.path.join(V, "properties.jsonl"))}
os.makedirs("/tmp/seed5", exist_ok=True)
for pid in sys.argv[1:]:
    p = props[pid]
    used = []
    for d in sorted(glob.glob(os.path.join(V, "seeded", pid + "?"))):
        pd = open(os.path.join(d, "patch.diff")).read()
        hunks = re.findall(r"^@@.*@@ (.*)$", pd, re.M)
        files = re.findall(r"^\+\+\+ b/(.*)$", pd, re.M)
        minus = [l[1:].strip() for l in pd.splitlines() if l.startswith("-") and not l.startswith("---")][:2]
        used.append("in %s near `%s` (changed line(s): %s)" % (", ".join(files), "; ".join(h.strip() for h in hunks[:2]), " / ".join(minus)[:160]))
    text = head.replace("C02", pid).replace("seed2", "seed5") + "The property (this is all the specification you get):\n-----\n"
    text += "%s — %s\n\n%s\n\nInput space the property quantifies over: %s\n" % (pid, p["title"], p["statement"], p["quantifier"]["text"])
    text += tail.replace("C02", pid).replace("seed2", "seed5")
    text += "IMPORTANT - changes at these places have ALREADY been used by someone else for this property; do NOT use them or close variants, find different code sites / mechanisms (for example the Python class methods rather than the jitted kernels, other sketch families named by the property, constructors, save/load, helpers, other branches):\n - " + "\n - ".join(used) + "\n"
    open("/tmp/seed5/%s.prompt.txt" % pid, "w").write(text)
    wt = "/tmp/seed5/%s" % pid
    subprocess.run(["git", "-C", "/repo", "worktree", "remove", "--force", wt], capture_output=True)
    subprocess.run(["git", "-C", "/repo", "worktree", "prune"])
    subprocess.run(["git", "-C", "/repo", "worktree", "add", "--detach", wt, "HEAD", "-q"], check=True)
    os.makedirs("/tmp/seed5/%s.out" % pid, exist_ok=True)
    print(pid, len(text))
