#!/usr/bin/env python3
"""Regenerate /verif/MANIFEST.json from the table below (kept in one place so it is always valid)."""
import json, os
V = os.path.dirname(os.path.dirname(os.path.abspath(__file__)))
props = [json.loads(l) for l in open(os.path.join(V, "properties.jsonl"))]

PROOF = "proof"
CLAIMS = {
 "C11": dict(
   level=PROOF,
   text="Every kernel of sketchnu/hashes.py is verified against the reference FastHash / MurmurHash3_x86_32 for all byte strings of any length and all seeds: bit-precise VCs generated from Numba's typed IR of the real functions (loop invariant over a ghost fold for the block loops, all tail branches), discharged by z3; purity by IR scan. A failing obligation is replayed on the real function with the solver's model.",
   note="Trusted: Numba after type inference/LLVM, the primitive table skv/sem.py (cross-checked concretely against the real functions every run), z3, the transcription of the reference algorithms in skv/spec/hashes.py (validated on 38 reference vectors each run), little-endian host, murmur3 len < 2^31. The run-time comparison on random inputs is a bounded stand-in and not counted as proof.",
   technique="contract-based deductive verification: typed-IR VC generation + z3 (bit-vectors), sidecar contracts",
   ref="DESIGN.md 4 (C11), 1.1"),
 "C02": dict(
   level=PROOF,
   text="HyperLogLog kernels (_n_leading_zeros64, _add, _add_ngram, _merge, plus fasthash64) are verified from Numba's typed IR against exact register-level contracts for all p in 7..16, all seeds, all keys (bit-vector VCs, loop invariants); a code-independent lemma layer proves from those contract clauses that add is idempotent/commutative, merge is commutative/associative/idempotent and distributes over add, and that the representation invariant 'register i = max rank over the key set' is established, preserved by add/merge/ngram-fold and determines the registers uniquely - hence (induction over histories) the state depends only on the set of distinct keys.",
   note="Trusted: Numba after type inference/LLVM, primitive table (cross-checked each run), z3, induction over histories as a meta-theorem, no aliasing of merge operands. Class-method glue obligations are listed in the evidence when front end B covers them. Run-time comparison with the executable register semantics is a bounded stand-in, not counted as proof.",
   technique="contract-based deductive verification: typed-IR VC generation + z3 (bit-vectors) + lemma layer over contract clauses",
   ref="DESIGN.md 4 (C02)"),
}

KERNEL_NOTE = "Trusted: Numba after type inference/LLVM (incl. parfor conversion: sequential semantics + proved row-disjoint writes), the primitive table skv/sem.py (cross-checked concretely against the real functions every run), z3, induction over histories (meta-theorem), ghost sums S/f as described in DESIGN 4, no aliasing of merge operands. Class-method glue (caps, wrappers, save/load) is covered by front end B rows (kind G) when present in the evidence; otherwise it is assumed. Run-time contract evaluation and float stand-ins are bounded and never counted as proved."
TECH = "contract-based deductive verification: typed-IR VC generation + z3, sidecar contracts, lemma layer over contract clauses"
CLAIMS.update({
 "C01": dict(level=PROOF, ref="DESIGN.md 4 (C01)", technique=TECH, note=KERNEL_NOTE,
   text="_query_linear, _add_linear (property-derived clauses: key's counters end >= min(old_min+v, ceiling), no counter decreases, only the key's counter of a row may change and by at most v) and _merge_linear (saturating cell-wise sum) are proved from the typed IR for all tables, widths, depths, keys and multiplicities; the lemma layer proves that the representation invariant I1 (cell >= min(f,2^32-1) for every key's cells; cell <= min(collision sum,2^32-1)) is established by the empty sketch and preserved by add (any requested multiplicity) and merge, and that I1 gives true <= estimate <= every row's collision sum and exactness for a collision-free row."),
 "C03": dict(level=PROOF, ref="DESIGN.md 4 (C03)", technique=TECH, note=KERNEL_NOTE,
   text="heavy-hitter _add, _merge, _max_count are proved against exact Boyer-Moore cell contracts in which a key's identity is (zero padded bytes, length), for all shapes, keys and multiplicities; lemmas prove that 'a cell storing identity x has count <= f(x)' is established, preserved by add and merge, and implies hh[key] <= true count and 0 for never-added keys."),
 "C04": dict(level=PROOF, ref="DESIGN.md 4 (C04)", technique=TECH, note=KERNEL_NOTE + " The statement is proved absent 32-bit saturation, as the property says.",
   text="Same kernel contracts as C03; lemmas prove the potential bound Phi_x(r) >= 2f(x) - W_r is established, preserved by add (all five cases) and super-additive under merge, that hh[x] >= 2f - W_r when positive, and that a majority key is stored in its cell in every row with count >= 2f - N and the strictly largest reported count."),
 "C05": dict(level=PROOF, ref="DESIGN.md 4 (C05)", technique=TECH, note=KERNEL_NOTE + " float64 treated as real in the log kernels.",
   text="Exact contracts of _add_linear, _add_log16, _add_log8, _log_counter, _rand, _counter2value and the three _query kernels are proved from the typed IR; lemmas derive each clause of the statement (key estimate = min(old+v, ceiling); log counter advances 0..v and exactly v in the reserved range; no other estimate decreases or ends above max(own old, key's new); at most one counter per row changes; n_added grows by v) for every state satisfying the shape invariant."),
 "C06": dict(level=PROOF, ref="DESIGN.md 4 (C06)", technique=TECH, note=KERNEL_NOTE + " float64 treated as real; POW axiom instances b^0=1, b^1=b, b^(x+1)=b*b^x, b^-x*b^x=1; uniformity of numpy's generators assumed. Float rounding at the decision boundary and the log merges' rounding branch are covered only by bounded stand-ins (every counter value x configuration grid x draws below/at/above the boundary).",
   text="_log_counter's one-step law (advance iff draw < base^-(c-nr), the draw being the value _rand hands out; exact while below num_reserved; absorbing ceiling), _rand's pointer/refill contract and the add kernels are proved from the typed IR over reals; lemmas prove decode is the identity up to num_reserved+1, the decoded value rises by base^(c-nr) so probability*rise = 1 (unbiased), and the lower bound counter >= min(f, num_reserved+1) is preserved by adds."),
 "C09": dict(level=PROOF, ref="DESIGN.md 4 (C09)", technique=TECH, note=KERNEL_NOTE + " Log merges: reserved-range and saturation clauses, counters, frame and parallel row-disjointness are proved over reals; the rounding branch (nearest decoded counter) is NOT proved - it is covered by the bounded float stand-in (log8: all 256x256 pairs per configuration; log16: all counters vs empty + sampled pairs).",
   text="_merge_linear is proved to be the cell-wise saturating sum with the other operand unchanged and counters summed (nested loop invariants, parallel-loop frame obligations); lemmas give commutativity, identity of the empty sketch, merged >= each input and merged estimate >= min(sum of estimates, ceiling). _merge_log16/_merge_log8 are proved for the reserved range (exact sum), saturation at max_count, counters and frame."),
 "C18": dict(level=PROOF, ref="DESIGN.md 4 (C18)", technique=TECH, note=KERNEL_NOTE + " The constructor clause (accepted configuration => ceiling decodes to max_count, else ValueError) depends on _find_base, 200 float Newton steps outside the verifier's reach: bounded grid stand-in only. Log merges at the ceiling: saturation clause proved over reals + bounded float stand-in.",
   text="Bit-precise VCs of _add_linear/_merge_linear (no wrap: uint_maxval - count, min_count + value, 64->32 bit stores), _log_counter/_add_log*/_merge_log* (absorbing ceiling) and heavy-hitter _add/_merge (clamping match branch) are proved; lemmas show a key at the ceiling stays there under any add or merge, no add or merge lowers a counter or estimate, and a heavy-hitter count that fills its cell alone only grows and clamps."),
})

NOT_YET = "check not built yet (construction in progress; see DESIGN.md section 7)"

checks = []
for p in props:
    c = CLAIMS.get(p["id"])
    if not c:
        continue
    checks.append({
        "property_id": p["id"],
        "quick_cmd": "./check %s --tier quick" % p["id"],
        "thorough_cmd": "./check %s --tier thorough" % p["id"],
        "evidence_file": "/verif/evidence/%s.json" % p["id"],
        "replay_cmd_template": "./check %s --replay {path}" % p["id"],
        "engine": "skv",
        "level_claimed": {"category": c["level"], "text": c["text"], "design_ref": c["ref"]},
        "level_note": c["note"],
        "technique": c["technique"],
    })
NA = {}
m = {
 "version": 1,
 "setup_cmd": "./setup.sh",
 "hooks": {"guard": "SKETCHNU_VERIF", "enable": "no source hooks: contracts are sidecar files under /verif/skv/contracts; checks import sketchnu from /repo's working tree (SKV_REPO overrides)", "baseline_off_cmd": "cd /repo && /venv/bin/python -m pytest -ra -q -p no:cacheprovider --timeout=900 --continue-on-collection-errors", "source_commits": [], "add_only": True},
 "engines": [{"name": "skv", "path": "/verif/skv", "serves_properties": sorted(CLAIMS), "kind_free_text": "own deductive verifier: Numba typed IR -> symbolic execution with loop invariants and callee contracts -> z3; Python-ast front end for glue; lemma layer over contract clauses"}],
 "checks": checks,
 "notes": "see DESIGN.md; known findings in known_findings.json",
 "not_applicable": [{"property_id": p["id"], "reason": NA.get(p["id"], NOT_YET)} for p in props if p["id"] not in CLAIMS],
}
json.dump(m, open(os.path.join(V, "MANIFEST.json"), "w"), indent=1)
print("checks:", [c["property_id"] for c in checks])
