#!/usr/bin/env python3
"""Regenerate /verif/MANIFEST.json from the table below (kept in one place so it is always valid)."""
import json, os
V = os.path.dirname(os.path.dirname(os.path.abspath(__file__)))
props = [json.loads(l) for l in open(os.path.join(V, "properties.jsonl"))]

PROOF = "proof"
CLAIMS = {
 "C11": dict(
   level=PROOF,
   text="Every kernel of sketchnu/hashes.py is verified against the reference FastHash / MurmurHash3_x86_32 for all byte strings of any length and all seeds: bit-precise VCs generated from Numba's typed IR of the real functions (loop invariant over a ghost fold for the block loops, all tail branches), discharged by z3; purity by IR scan. A failing obligation is replayed on the real function with the solver's model.",
   note="Trusted: Numba after type inference/LLVM, the primitive table skv/sem.py (cross-checked concretely against the real functions every run), z3, the transcription of the reference algorithms in skv/spec/hashes.py (validated on 38 reference vectors each run), little-endian host, murmur3 len < 2^31. The run-time comparison on random inputs is a bounded stand-in and not counted as proof.",
   technique="contract-based deductive verification: typed-IR VC generation + z3 (bit-vectors), sidecar contracts",
   ref="DESIGN.md 4 (C11), 1.1"),
 "C02": dict(
   level=PROOF,
   text="HyperLogLog kernels (_n_leading_zeros64, _add, _add_ngram, _merge, plus fasthash64) are verified from Numba's typed IR against exact register-level contracts for all p in 7..16, all seeds, all keys (bit-vector VCs, loop invariants); a code-independent lemma layer proves from those contract clauses that add is idempotent/commutative, merge is commutative/associative/idempotent and distributes over add, and that the representation invariant 'register i = max rank over the key set' is established, preserved by add/merge/ngram-fold and determines the registers uniquely - hence (induction over histories) the state depends only on the set of distinct keys.",
   note="Trusted: Numba after type inference/LLVM, primitive table (cross-checked each run), z3, induction over histories as a meta-theorem, no aliasing of merge operands. Class-method glue obligations are listed in the evidence when front end B covers them. Run-time comparison with the executable register semantics is a bounded stand-in, not counted as proof.",
   technique="contract-based deductive verification: typed-IR VC generation + z3 (bit-vectors) + lemma layer over contract clauses",
   ref="DESIGN.md 4 (C02)"),
}
NOT_YET = "check not built yet (construction in progress; see DESIGN.md section 7)"

checks = []
for p in props:
    c = CLAIMS.get(p["id"])
    if not c:
        continue
    checks.append({
        "property_id": p["id"],
        "quick_cmd": "./check %s --tier quick" % p["id"],
        "thorough_cmd": "./check %s --tier thorough" % p["id"],
        "evidence_file": "/verif/evidence/%s.json" % p["id"],
        "replay_cmd_template": "./check %s --replay {path}" % p["id"],
        "engine": "skv",
        "level_claimed": {"category": c["level"], "text": c["text"], "design_ref": c["ref"]},
        "level_note": c["note"],
        "technique": c["technique"],
    })
NA = {}
m = {
 "version": 1,
 "setup_cmd": "./setup.sh",
 "hooks": {"guard": "SKETCHNU_VERIF", "enable": "no source hooks: contracts are sidecar files under /verif/skv/contracts; checks import sketchnu from /repo's working tree (SKV_REPO overrides)", "baseline_off_cmd": "cd /repo && /venv/bin/python -m pytest -ra -q -p no:cacheprovider --timeout=900 --continue-on-collection-errors", "source_commits": [], "add_only": True},
 "engines": [{"name": "skv", "path": "/verif/skv", "serves_properties": sorted(CLAIMS), "kind_free_text": "own deductive verifier: Numba typed IR -> symbolic execution with loop invariants and callee contracts -> z3; Python-ast front end for glue; lemma layer over contract clauses"}],
 "checks": checks,
 "notes": "see DESIGN.md; known findings in known_findings.json",
 "not_applicable": [{"property_id": p["id"], "reason": NA.get(p["id"], NOT_YET)} for p in props if p["id"] not in CLAIMS],
}
json.dump(m, open(os.path.join(V, "MANIFEST.json"), "w"), indent=1)
print("checks:", [c["property_id"] for c in checks])
