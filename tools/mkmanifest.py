#!/usr/bin/env python3
"""Regenerate /verif/MANIFEST.json from the table below (kept in one place so it is always valid)."""
import json, os
V = os.path.dirname(os.path.dirname(os.path.abspath(__file__)))
props = [json.loads(l) for l in open(os.path.join(V, "properties.jsonl"))]

PROOF = "proof"
CLAIMS = {
 "C11": dict(
   level=PROOF,
   text="Every kernel of sketchnu/hashes.py is verified against the reference FastHash / MurmurHash3_x86_32 for all byte strings of any length and all seeds: bit-precise VCs generated from Numba's typed IR of the real functions (loop invariant over a ghost fold for the block loops, all tail branches), discharged by z3; purity by IR scan. A failing obligation is replayed on the real function with the solver's model.",
   note="Trusted: Numba after type inference/LLVM, the primitive table skv/sem.py (cross-checked concretely against the real functions every run), z3, the transcription of the reference algorithms in skv/spec/hashes.py (validated on 38 reference vectors each run), little-endian host, murmur3 len < 2^31. The run-time comparison on random inputs is a bounded stand-in and not counted as proof.",
   technique="contract-based deductive verification: typed-IR VC generation + z3 (bit-vectors), sidecar contracts",
   ref="DESIGN.md 4 (C11), 1.1"),
 "C02": dict(
   level=PROOF,
   text="HyperLogLog kernels (_n_leading_zeros64, _add, _add_ngram, _merge, plus fasthash64) are verified from Numba's typed IR against exact register-level contracts for all p in 7..16, all seeds, all keys (bit-vector VCs, loop invariants); a code-independent lemma layer proves from those contract clauses that add is idempotent/commutative, merge is commutative/associative/idempotent and distributes over add, and that the representation invariant 'register i = max rank over the key set' is established, preserved by add/merge/ngram-fold and determines the registers uniquely - hence (induction over histories) the state depends only on the set of distinct keys.",
   note="Trusted: Numba after type inference/LLVM, primitive table (cross-checked each run), z3, induction over histories as a meta-theorem, no aliasing of merge operands. Class-method glue obligations are listed in the evidence when front end B covers them. Run-time comparison with the executable register semantics is a bounded stand-in, not counted as proof.",
   technique="contract-based deductive verification: typed-IR VC generation + z3 (bit-vectors) + lemma layer over contract clauses",
   ref="DESIGN.md 4 (C02)"),
}

KERNEL_NOTE = "Trusted: Numba after type inference/LLVM (incl. parfor conversion: sequential semantics + proved row-disjoint writes), the primitive table skv/sem.py (cross-checked concretely against the real functions every run), z3, induction over histories (meta-theorem), ghost sums S/f as described in DESIGN 4, no aliasing of merge operands. Class-method glue (caps, wrappers, save/load) is covered by front end B rows (kind G) when present in the evidence; otherwise it is assumed. Run-time contract evaluation and float stand-ins are bounded and never counted as proved."
TECH = "contract-based deductive verification: typed-IR VC generation + z3, sidecar contracts, lemma layer over contract clauses"
CLAIMS.update({
 "C01": dict(level=PROOF, ref="DESIGN.md 4 (C01)", technique=TECH, note=KERNEL_NOTE,
   text="_query_linear, _add_linear (property-derived clauses: key's counters end >= min(old_min+v, ceiling), no counter decreases, only the key's counter of a row may change and by at most v) and _merge_linear (saturating cell-wise sum) are proved from the typed IR for all tables, widths, depths, keys and multiplicities; the lemma layer proves that the representation invariant I1 (cell >= min(f,2^32-1) for every key's cells; cell <= min(collision sum,2^32-1)) is established by the empty sketch and preserved by add (any requested multiplicity) and merge, and that I1 gives true <= estimate <= every row's collision sum and exactness for a collision-free row."),
 "C03": dict(level=PROOF, ref="DESIGN.md 4 (C03)", technique=TECH, note=KERNEL_NOTE,
   text="heavy-hitter _add, _merge, _max_count are proved against exact Boyer-Moore cell contracts in which a key's identity is (zero padded bytes, length), for all shapes, keys and multiplicities; lemmas prove that 'a cell storing identity x has count <= f(x)' is established, preserved by add and merge, and implies hh[key] <= true count and 0 for never-added keys."),
 "C04": dict(level=PROOF, ref="DESIGN.md 4 (C04)", technique=TECH, note=KERNEL_NOTE + " The statement is proved absent 32-bit saturation, as the property says.",
   text="Same kernel contracts as C03; lemmas prove the potential bound Phi_x(r) >= 2f(x) - W_r is established, preserved by add (all five cases) and super-additive under merge, that hh[x] >= 2f - W_r when positive, and that a majority key is stored in its cell in every row with count >= 2f - N and the strictly largest reported count."),
 "C05": dict(level=PROOF, ref="DESIGN.md 4 (C05)", technique=TECH, note=KERNEL_NOTE + " float64 treated as real in the log kernels.",
   text="Exact contracts of _add_linear, _add_log16, _add_log8, _log_counter, _rand, _counter2value and the three _query kernels are proved from the typed IR; lemmas derive each clause of the statement (key estimate = min(old+v, ceiling); log counter advances 0..v and exactly v in the reserved range; no other estimate decreases or ends above max(own old, key's new); at most one counter per row changes; n_added grows by v) for every state satisfying the shape invariant."),
 "C06": dict(level=PROOF, ref="DESIGN.md 4 (C06)", technique=TECH, note=KERNEL_NOTE + " float64 treated as real; POW axiom instances b^0=1, b^1=b, b^(x+1)=b*b^x, b^-x*b^x=1; uniformity of numpy's generators assumed. Float rounding at the decision boundary and the log merges' rounding branch are covered only by bounded stand-ins (every counter value x configuration grid x draws below/at/above the boundary).",
   text="_log_counter's one-step law (advance iff draw < base^-(c-nr), the draw being the value _rand hands out; exact while below num_reserved; absorbing ceiling), _rand's pointer/refill contract and the add kernels are proved from the typed IR over reals; lemmas prove decode is the identity up to num_reserved+1, the decoded value rises by base^(c-nr) so probability*rise = 1 (unbiased), and the lower bound counter >= min(f, num_reserved+1) is preserved by adds."),
 "C09": dict(level=PROOF, ref="DESIGN.md 4 (C09)", technique=TECH, note=KERNEL_NOTE + " Log merges are proved over REALS (ln / pow uninterpreted, law instances at the current cell assumed; requires 'the ceiling decodes to max_count', assumed from _find_base); float64 rounding is covered only by the bounded float stand-in (log8: all 256x256 pairs per configuration; log16: all counters vs empty + sampled pairs).",
   text="_merge_linear is proved to be the cell-wise saturating sum with the other operand unchanged and counters summed (nested loop invariants, parallel-loop frame obligations); lemmas give commutativity, identity of the empty sketch, merged >= each input and merged estimate >= min(sum of estimates, ceiling). _merge_log16/_merge_log8 are proved cell by cell: exact sum in the reserved range, the maximum counter once the sum reaches max_count, otherwise the nearer of the two consecutive counters bracketing the decoded sum (ties down); counters summed, other operand unchanged; lemmas: ratio test = nearest, merged counter >= each input."),
 "C18": dict(level=PROOF, ref="DESIGN.md 4 (C18)", technique=TECH, note=KERNEL_NOTE + " The constructor clause (accepted configuration => ceiling decodes to max_count, else ValueError) depends on _find_base, 200 float Newton steps outside the verifier's reach: bounded grid stand-in only. Log merges at the ceiling: saturation clause proved over reals + bounded float stand-in.",
   text="Bit-precise VCs of _add_linear/_merge_linear (no wrap: uint_maxval - count, min_count + value, 64->32 bit stores), _log_counter/_add_log*/_merge_log* (absorbing ceiling) and heavy-hitter _add/_merge (clamping match branch) are proved; lemmas show a key at the ceiling stays there under any add or merge, no add or merge lowers a counter or estimate, and a heavy-hitter count that fills its cell alone only grows and clamps."),
})

GLUE_NOTE = "Trusted: front end B (skv/pyexec.py, symbolic execution of a stated Python subset re-parsed from the tree every run), CPython/NumPy semantics of that subset, the assumed library contracts listed in the evidence (SharedMemory, np.savez/np.load round trip, multiprocessing Queue/Process, Counter), z3. Kernels are used through their contracts (proved in the kernel-level properties). Oracles on the real classes are bounded stand-ins / replay search, never counted as proved."
TECHB = "contract-based deductive verification: symbolic execution of the real Python methods (ast) against sidecar contracts + z3; kernels by contract"
CLAIMS.update({
 "C07": dict(level="other", ref="DESIGN.md 4 (C07), 5", technique="contract-based: deterministic clauses proved from the _query contract; envelope reduced to C02+C17 (statistical part only sampled)", note="The probabilistic error envelope is NOT decided by any contract: it is reduced to C02 (registers = max-rank table of the key set) and C17 (query = documented estimator) plus the external HLL++ analysis; a seeded simulation with k=8 is a bounded statistical stand-in. float64 as real; ln monotone / ln 1 = 0 as axiom instances.",
   text="Proved from the contract of hyperloglog._query (itself proved from the typed IR): the empty sketch estimates exactly 0.0, and for n distinct keys with linear-counting value below the threshold the estimate does not exceed the linear-counting value for n occupied registers."),
 "C08": dict(level=PROOF, ref="DESIGN.md 4 (C08)", technique=TECHB, note=GLUE_NOTE + " parallel_merging is proved per concrete worker count (n = 1..6 quick, 1..11 thorough): BOUNDED in n, unbounded in sketch contents. Not decided: that the OS / multiprocessing honour the assumed contracts. Known finding F3 (generator input not picklable under spawn) is reported as KNOWN-FINDING.",
   text="The real _fill_queue, _worker, _merge_worker, parallel_merging and parallel_add are executed symbolically: every item is queued once followed by one pill per worker; a worker applies the callback exactly once per received item, in order, to sketches attached to its own parent-owned blocks and accounts n_records once per cms/hh sketch at its pill; parallel_merging merges every input exactly once (symbolic weights) with disjoint pairs per round and all processes joined; parallel_add creates one shared sketch per type per worker, hands worker i its own sketches by name, and returns the merged results in the documented order."),
 "C10": dict(level=PROOF, ref="DESIGN.md 4 (C10)", technique=TECHB, note=GLUE_NOTE + " float64 round trip of heavy-hitter width/depth/max_key_len exact below 2^53; _find_base is a function of its arguments.",
   text="For each of the five classes the real save() and load() are executed symbolically on an object produced by the real constructor: load never raises on a file save wrote (the constructor's precondition holds for every state the constructor can produce), returns the same class with provably equal parameters, restores every table and the bookkeeping counters from the member save wrote them to, regenerates the heavy-hitter cache, supports shared_memory=True, the module-level load dispatches by the stored dtype and class loaders reject other counter types."),
 "C12": dict(level=PROOF, ref="DESIGN.md 4 (C12)", technique=TECH + "; " + TECHB, note=KERNEL_NOTE + " 'add(key, v) equals v single adds' is proved for linear count-min and heavy hitters (closed form, inductive step + bulk case; induction over v is a meta-step) and HyperLogLog (idempotence); for the log types it is covered by the bounded oracle only (identical draws).",
   text="Every n-gram kernel is proved (typed IR, call-sequence contracts; HyperLogLog by ghost fold) to perform exactly one call of its family's add kernel per window key[i:i+n], i = 0..len-n, multiplicity 1 (one call on the whole key when len <= n), on its own tables, threading the random pointer; update(list), update(dict), update_ngram are proved to issue exactly the kernel-call sequence of the loop of single calls, __getitem__ that of query (symbolic execution of the real methods of all five classes)."),
 "C13": dict(level=PROOF, ref="DESIGN.md 4 (C13)", technique=TECHB, note=GLUE_NOTE + " generate_candidate_set is proved for concrete small shapes (width*depth <= 4 quick, <= 6 thorough) with fully symbolic contents: BOUNDED in shape. Counter.most_common is an assumed contract. n_added does not wrap 2^64.",
   text="generate_candidate_set: the cache maps exactly the stored identities of non-empty cells whose _max_count (max over all rows, by contract) is >= threshold to that count, and records (n_added, threshold). query(): for every cache state it regenerates for the effective threshold (floor(phi*n_added) by default) unless n_added_sort >= n_added and threshold_sort equals it, and returns candidate_set.most_common(k); no mutator touches the cache bookkeeping while add/merge change n_added through their kernels; counts equal hh[key] (same kernel, same arguments)."),
 "C14": dict(level="other", ref="DESIGN.md 4 (C14), 5", technique="contract-based: hash-schedule clauses of the kernel contracts proved; statistical independence only sampled", note="The exp(-depth) bound is probabilistic and not decidable by contracts; FastHash64 under distinct seeds is ASSUMED to behave as independent uniform functions (chi-square stand-in only).",
   text="In every query/add kernel of the count-min and heavy-hitter families the column of row r is proved to be FastHash64(whole key, seed = r) mod width: one distinct seed per row, the same schedule in all kernels of a family, the whole (truncated-to-max_key_len) key hashed."),
 "C15": dict(level=PROOF, ref="DESIGN.md 4 (C15)", technique=TECHB, note=GLUE_NOTE + " Objects reached by any history keep the parameter fields their constructor gave them (no public method reassigns them).",
   text="For every class pair the real merge() is executed symbolically on two objects produced by symbolically executing the real constructors: a raising path raises TypeError, performs no store or kernel call first and implies the property's incompatibility disjunction; a returning path implies compatibility, calls exactly the family's merge kernel on the two operands' own tables and satisfies the kernel's requires clauses."),
 "C16": dict(level=PROOF, ref="DESIGN.md 4 (C16)", technique=TECHB, note=GLUE_NOTE + " SharedMemory(size=n) gives exactly n bytes (Linux); unlink removes the segment.",
   text="Layout equations for all shapes (no alignment assumption): the views created by __init__(shared_memory=True) tile the block exactly and n_added_records has two elements; attach_existing_shm computes provably the same offset, extent, dtype and shape for every view; helpers.attach_shared_memory rebuilds a sketch with provably equal parameters; __del__ unlinks only through the owner's handle, a view only closes, views are dropped before close."),
 "C17": dict(level=PROOF, ref="DESIGN.md 4 (C17)", technique=TECH + "; " + TECHB, note=KERNEL_NOTE + " float64 as real; np.log, np.interp, np.count_nonzero and ** are named uninterpreted functions whose NumPy meaning is assumed.",
   text="The term computed by _query (typed IR over reals, callees by contract) is proved equal to the property's piecewise HyperLogLog++ estimator; _estimation_function's loop is proved to compute alpha*m^2/sum(2^-r); the constructor is proved to set alpha, m = 2^p and to take threshold / raw_estimate / bias_data from row p-7 of the shipped tables; the tables satisfy the stated data obligations (strictly increasing, begin where the thresholds end)."),
 "C19": dict(level=PROOF, ref="DESIGN.md 4 (C19)", technique=TECHB, note=GLUE_NOTE + " NOT DECIDED: termination ('never hangs') - liveness of OS processes and queues; only the safety parts are proved. Process.exitcode / Queue.close contracts assumed.",
   text="_worker: on every subset of raising items the callback is attempted once per item in order, a raising item contributes 0 records and the loop continues, the pill branch accounts exactly the successful returns. parallel_add: for symbolic worker exit codes a normal return implies every worker exited with code 0; a non-zero code leads to kill + queue close and an exception. parallel_merging: a merge worker with a negative exit code raises RuntimeError."),
 "C20": dict(level=PROOF, ref="DESIGN.md 4 (C20)", technique=TECHB, note=GLUE_NOTE + " ASSUMED EXTERNAL CONTRACT: numpy/zipfile reject every strict prefix of an .npz file; validated only by the bounded prefix test on real files.",
   text="Repository-side obligations for all five loaders and the module-level load: no exception handler encloses np.load or a member access, every member save() wrote is read through the open npz file (inside the with-block) before a sketch is returned - so numpy's error for a truncated file reaches the caller."),
})

NOT_YET = "check not built yet (construction in progress; see DESIGN.md section 7)"

checks = []
for p in props:
    c = CLAIMS.get(p["id"])
    if not c:
        continue
    checks.append({
        "property_id": p["id"],
        "quick_cmd": "./check %s --tier quick" % p["id"],
        "thorough_cmd": "./check %s --tier thorough" % p["id"],
        "evidence_file": "/verif/evidence/%s.json" % p["id"],
        "replay_cmd_template": "./check %s --replay {path}" % p["id"],
        "engine": "skv",
        "level_claimed": {"category": c["level"], "text": c["text"], "design_ref": c["ref"]},
        "level_note": c["note"],
        "technique": c["technique"],
    })
NA = {}
m = {
 "version": 1,
 "setup_cmd": "./setup.sh",
 "hooks": {"guard": "SKETCHNU_VERIF", "enable": "no source hooks: contracts are sidecar files under /verif/skv/contracts; checks import sketchnu from /repo's working tree (SKV_REPO overrides)", "baseline_off_cmd": "cd /repo && /venv/bin/python -m pytest -ra -q -p no:cacheprovider --timeout=900 --continue-on-collection-errors", "source_commits": [], "add_only": True},
 "engines": [{"name": "skv", "path": "/verif/skv", "serves_properties": sorted(CLAIMS), "kind_free_text": "own deductive verifier: Numba typed IR -> symbolic execution with loop invariants and callee contracts -> z3; Python-ast front end for glue; lemma layer over contract clauses"}],
 "checks": checks,
 "notes": "see DESIGN.md; known findings in known_findings.json",
 "not_applicable": [{"property_id": p["id"], "reason": NA.get(p["id"], NOT_YET)} for p in props if p["id"] not in CLAIMS],
}
json.dump(m, open(os.path.join(V, "MANIFEST.json"), "w"), indent=1)
print("checks:", [c["property_id"] for c in checks])
