#!/bin/bash
# usage: rerun_test.sh <ID> <a|b> <pytest node id> [n]   -> /tmp/seedconfirm/<ID><x>.rerun
ID=$1; X=$2; T=$3; N=${4:-3}
WT=/tmp/seedconfirm/rr-$ID$X
rm -rf $WT; git -C /repo worktree prune
git -C /repo worktree add --detach $WT HEAD -q || exit 2
cd $WT && git apply /tmp/seed/$ID.out/$X/patch.diff || exit 2
: > /tmp/seedconfirm/$ID$X.rerun
for i in $(seq $N); do /venv/bin/python -m pytest -q -p no:cacheprovider --timeout=900 "$T" 2>&1 | tail -1 >> /tmp/seedconfirm/$ID$X.rerun; done
cd /; git -C /repo worktree remove --force $WT
