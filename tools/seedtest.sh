#!/bin/bash
# usage: seedtest.sh <patch.diff> <property ids...> : apply to /repo, run quick checks, revert
P=$1; shift
cd /verif
git -C /repo diff --quiet || { echo "/repo not clean"; exit 2; }
git -C /repo apply "$P" || { echo "apply failed: $P"; exit 2; }
for id in "$@"; do
  out=$(./check $id 2>&1); rc=$?
  echo "[$P] $id rc=$rc :: $(echo "$out" | grep -cE '^VIOLATION') violations; $(echo "$out" | grep -E '^(UNDECIDED|CHECKER-ERROR)' | head -2 | tr '\n' ' ') $(echo "$out" | tail -1)"
done
git -C /repo checkout -- .
