#!/bin/bash
# usage: seedtest.sh <patch.diff> <property ids...> : apply to /repo, run quick checks, revert
P=$1; shift
cd /verif
git -C /repo diff --quiet || { echo "/repo not clean"; exit 2; }
git -C /repo apply "$P" || { echo "apply failed: $P"; exit 2; }
for id in "$@"; do
  out=$(./check $id 2>&1); rc=$?
  viol=$(echo "$out" | grep -E '^VIOLATION' | sed -E 's/.*replay=\/verif\/replay\/[A-Z0-9]+-//; s/\.json//' | tr '\n' ',' )
  echo "[$P] $id rc=$rc :: $(echo "$out" | grep -cE '^VIOLATION') violations {$viol} $(echo "$out" | grep -E '^(UNDECIDED|CHECKER-ERROR)' | head -2 | cut -c1-160 | tr '\n' ' ') $(echo "$out" | tail -1)"
done
git -C /repo checkout -- .
