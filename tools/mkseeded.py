#!/usr/bin/env python3
"""Collect the independently produced property-breaking changes into /verif/seeded/<id>/ :
patch.diff, demo.py, notes.md (the author's description) and meta.json (which property it breaks,
what it needs in order to manifest, what was run to confirm it, which checks catch it)."""
import json, os, re, shutil, sys, glob

V = os.path.dirname(os.path.dirname(os.path.abspath(__file__)))
SRC = "/tmp/seed"
CONF = "/tmp/seedconfirm"
det = json.load(open(os.path.join(V, "seeded", "detection.json"))) if os.path.exists(os.path.join(V, "seeded", "detection.json")) else {}
outs = [(o, os.path.basename(o)) for o in sorted(glob.glob(os.path.join(SRC, "C??.out", "[ab]")))]
outs += [(o, {"a": "c", "b": "d"}[os.path.basename(o)]) for o in sorted(glob.glob(os.path.join("/tmp/seed2", "C??.out", "[ab]")))]  # second, diversified round
outs += [(o, {"a": "e", "b": "f"}[os.path.basename(o)]) for o in sorted(glob.glob(os.path.join("/tmp/seed3", "C??.out", "[ab]")))]  # third round: the remaining properties
outs += [(o, {"a": "g", "b": "h"}[os.path.basename(o)]) for o in sorted(glob.glob(os.path.join("/tmp/seed4", "C??.out", "[ab]"))) if os.path.exists(os.path.join(o, "patch.diff"))]  # fourth round: all properties again, other sites
outs += [(o, {"a": "i", "b": "j"}[os.path.basename(o)]) for o in sorted(glob.glob(os.path.join("/tmp/seed5", "C??.out", "[ab]"))) if os.path.exists(os.path.join(o, "patch.diff"))]  # fifth round
outs += [(o, {"a": "k", "b": "l"}[os.path.basename(o)]) for o in sorted(glob.glob(os.path.join("/tmp/seed6", "C??.out", "[ab]"))) if os.path.exists(os.path.join(o, "patch.diff"))]  # sixth round (after the integrity bundle)
outs += [(o, {"a": "m", "b": "n"}[os.path.basename(o)]) for o in sorted(glob.glob(os.path.join("/tmp/seed7", "C??.out", "[ab]"))) if os.path.exists(os.path.join(o, "patch.diff"))]  # seventh round: measurement only (eight properties)
for out, x in outs:
    pid = os.path.basename(os.path.dirname(out))[:3]
    sid = pid + x
    dst = os.path.join(V, "seeded", sid)
    os.makedirs(dst, exist_ok=True)
    for f in ("patch.diff", "demo.py", "notes.md"):
        if os.path.exists(os.path.join(out, f)):
            shutil.copy(os.path.join(out, f), os.path.join(dst, f))
    notes = open(os.path.join(out, "notes.md")).read() if os.path.exists(os.path.join(out, "notes.md")) else ""
    conf = {}
    rf = os.path.join(CONF, sid + ".result")
    if os.path.exists(rf):
        m = re.match(r"demo_orig=(\d+) demo_changed=(\d+) suite=(.*)", open(rf).read().strip())
        if m:
            conf = {"demo_exit_on_original": int(m.group(1)), "demo_exit_with_change": int(m.group(2)), "suite_with_change": m.group(3)}
    rr = os.path.join(CONF, sid + ".rerun")
    if os.path.exists(rr):
        conf["rerun_of_the_one_failing_test"] = open(rr).read().strip().splitlines()
    files = re.findall(r"^\+\+\+ b/(\S+)", open(os.path.join(dst, "patch.diff")).read(), re.M)
    first = [l for l in notes.splitlines() if l.strip() and not l.startswith("#")]
    meta = {
        "id": sid,
        "breaks_property": pid,
        "files": files,
        "summary": (first[0][:400] if first else ""),
        "needs_to_manifest": "see notes.md (written by the author of the change, who saw only the property text)",
        "confirmed_by_me": conf,
        "round": {"a": 1, "b": 1, "c": 2, "d": 2, "e": 3, "f": 3, "g": 4, "h": 4, "i": 5, "j": 5, "k": 6, "l": 6, "m": 7, "n": 7}[x],
        "confirmation_procedure": "scratch worktree of /repo HEAD outside /repo and /verif: demo on the original (must exit 0), git apply patch.diff, demo (must exit != 0), full pinned test suite (51 tests must pass; a single failure of an unseeded statistical t-test was re-run in isolation), worktree removed",
        "caught_by": det.get(sid, {}),
    }
    json.dump(meta, open(os.path.join(dst, "meta.json"), "w"), indent=1)
    print(sid, conf.get("suite_with_change", "?")[:30], list(meta["caught_by"]))
# refresh "caught_by" of every collected seed from the latest detection.json
for d in sorted(glob.glob(os.path.join(V, "seeded", "C???"))):
    mf = os.path.join(d, "meta.json")
    if os.path.exists(mf):
        meta = json.load(open(mf))
        if det.get(meta["id"]) and meta.get("caught_by") != det[meta["id"]]:
            meta["caught_by"] = det[meta["id"]]
            json.dump(meta, open(mf, "w"), indent=1)
