#!/usr/bin/env python3
"""Run the quick checks against every seeded change, each in its own scratch worktree of /repo
(SKV_REPO) with its own output directory (SKV_OUT), several in parallel; write
seeded/detection.json.  Scratch trees live under /tmp and are removed afterwards."""
import json, os, re, subprocess, sys, glob, shutil
from concurrent.futures import ThreadPoolExecutor

V = os.path.dirname(os.path.dirname(os.path.abspath(__file__)))
MAP = {
 "C01a": ["C01", "C09", "C18"], "C01b": ["C01", "C05", "C18"], "C02a": ["C02"], "C02b": ["C02"], "C03a": ["C03", "C12"], "C03b": ["C03"],
 "C04a": ["C04", "C03"], "C04b": ["C04"], "C05a": ["C05", "C01"], "C05b": ["C05", "C01"], "C06a": ["C06", "C05"], "C06b": ["C06", "C12"],
 "C07a": ["C07", "C17"], "C07b": ["C07", "C17"], "C08a": ["C08"], "C08b": ["C08"], "C09a": ["C09", "C01"], "C09b": ["C09"],
 "C10a": ["C10"], "C10b": ["C10"], "C11a": ["C11"], "C11b": ["C11", "C02"], "C12a": ["C12"], "C12b": ["C12", "C03"],
 "C13a": ["C13"], "C13b": ["C13"], "C14a": ["C14", "C01"], "C14b": ["C14"], "C15a": ["C15"], "C15b": ["C15"],
 "C16a": ["C16"], "C16b": ["C16"], "C17a": ["C17", "C07"], "C17b": ["C17"], "C18a": ["C18", "C05"], "C18b": ["C18", "C09"],
 "C19a": ["C19"], "C19b": ["C19"], "C20a": ["C20"], "C20b": ["C20"],
}
MAP.update({
 "C01c": ["C01", "C10"], "C01d": ["C01", "C12"], "C03c": ["C03", "C18"], "C03d": ["C03", "C04"], "C05c": ["C05", "C01"], "C05d": ["C05", "C16"],
 "C10c": ["C10"], "C10d": ["C10"], "C13c": ["C13"], "C13d": ["C13"], "C15c": ["C15"], "C15d": ["C15"],
 "C16c": ["C16", "C13"], "C16d": ["C16", "C10"], "C18c": ["C18", "C03"], "C18d": ["C18"],
})
MAP.update({
 "C02e": ["C02"], "C02f": ["C02", "C08"], "C04e": ["C04", "C13"], "C04f": ["C04", "C13"], "C06e": ["C06"], "C06f": ["C06"],
 "C07e": ["C07"], "C07f": ["C07"], "C08e": ["C08", "C09"], "C08f": ["C08"], "C09e": ["C09"], "C09f": ["C09"],
 "C11e": ["C11"], "C11f": ["C11"], "C12e": ["C12"], "C12f": ["C12", "C06"], "C14e": ["C14", "C09"], "C14f": ["C14", "C10"],
 "C17e": ["C17"], "C17f": ["C17"], "C19e": ["C19"], "C19f": ["C19"], "C20e": ["C20"], "C20f": ["C20"],
})
for _i in range(1, 21):  # rounds 4 (g, h) and 5 (i, j): the check of the seed's own property
    for _x in "ghijklmn":
        MAP["C%02d%s" % (_i, _x)] = ["C%02d" % _i]
only = sys.argv[1:]
MX = os.environ.get("MX", "/tmp/mx")  # several matrix runs side by side: MX=/tmp/mx2 DET=detection_b.json


def run(sid):
    pid, x = sid[:3], sid[3]
    patch = os.path.join(V, "seeded", sid, "patch.diff")
    if not os.path.exists(patch):
        patch = "/tmp/seed/%s.out/%s/patch.diff" % (pid, x) if x in "ab" else ("/tmp/seed2/%s.out/%s/patch.diff" % (pid, {"c": "a", "d": "b"}[x]) if x in "cd" else ("/tmp/seed3/%s.out/%s/patch.diff" % (pid, {"e": "a", "f": "b"}[x]) if x in "ef" else ("/tmp/seed4/%s.out/%s/patch.diff" % (pid, {"g": "a", "h": "b"}[x]) if x in "gh" else ("/tmp/seed5/%s.out/%s/patch.diff" % (pid, {"i": "a", "j": "b"}[x]) if x in "ij" else ("/tmp/seed6/%s.out/%s/patch.diff" % (pid, {"k": "a", "l": "b"}[x]) if x in "kl" else "/tmp/seed7/%s.out/%s/patch.diff" % (pid, {"m": "a", "n": "b"}[x]))))))
    wt = MX + "/%s" % sid
    out = MX + "/out-%s" % sid
    subprocess.run(["git", "-C", "/repo", "worktree", "remove", "--force", wt], capture_output=True)
    subprocess.run(["git", "-C", "/repo", "worktree", "prune"], capture_output=True)
    r = subprocess.run(["git", "-C", "/repo", "worktree", "add", "--detach", wt, "HEAD", "-q"], capture_output=True, text=True)
    if r.returncode:
        return sid, {"error": r.stderr[-200:]}
    res = {}
    try:
        if subprocess.run(["git", "-C", wt, "apply", patch]).returncode:
            return sid, {"error": "patch does not apply"}
        for chk in MAP[sid]:
            env = dict(os.environ, SKV_REPO=wt, SKV_OUT=out)
            p = subprocess.run([os.path.join(V, "check"), chk], capture_output=True, text=True, env=env, cwd=V)
            lines = p.stdout.splitlines()
            viol = [re.sub(r".*replay=\S+/replay/[A-Z0-9]+-", "", l).replace(".json", "") for l in lines if l.startswith("VIOLATION")]
            und = [l[:160] for l in lines if l.startswith(("UNDECIDED", "CHECKER-ERROR"))]
            proofs = [v for v in viol if not any(t in v for t in ("bounded", "runtime", "oracle"))]
            res[chk] = {"exit": p.returncode, "violations": viol[:12], "by_obligation": bool(proofs), "by_bounded_standin_only": bool(viol) and not proofs, "undecided": und[:3], "summary": (lines[-1] if lines else "")[:160]}
    finally:
        subprocess.run(["git", "-C", "/repo", "worktree", "remove", "--force", wt], capture_output=True)
        shutil.rmtree(out, ignore_errors=True)
    return sid, res


os.makedirs(MX, exist_ok=True)
sids = [s for s in MAP if (not only and s[3] not in "ghijklmn") or s in only]
fn = os.path.join(V, "seeded", os.environ.get("DET", "detection.json"))
det = json.load(open(fn)) if os.path.exists(fn) else {}
with ThreadPoolExecutor(4) as ex:
    for sid, res in ex.map(run, sids):
        det[sid] = res
        print(sid, {k: (v.get("exit"), len(v.get("violations", []))) if isinstance(v, dict) and "exit" in v else v for k, v in res.items()}, flush=True)
        json.dump(det, open(fn, "w"), indent=1, sort_keys=True)
shutil.rmtree(MX, ignore_errors=True)
