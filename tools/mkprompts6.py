#!/usr/bin/env python3
"""seed prompts for fresh sub-agents: tools/mkprompts6.py <round-dir> <ID>...  -> <round-dir>/<ID>.prompt.txt and a
scratch worktree <round-dir>/<ID> of /repo HEAD.  The prompt carries only the property text (never anything from
/verif) and the list of sites earlier seeds of that property already used."""
import json, os, subprocess, sys, glob, re
V = os.path.dirname(os.path.dirname(os.path.abspath(__file__)))
ROOT = sys.argv[1]
HEAD = """You are helping to evaluate a verification effort by producing realistic *property-breaking code changes* (seeded defects) for the Python library mhendrey/sketchnu (Numba-jitted streaming sketches: HyperLogLog++, count-min with linear/log16/log8 counters, Topkapi heavy hitters, FastHash/Murmur3).

Your private scratch git worktree of the library is at: {wt}   (work ONLY inside this directory and {wt}.out/ ; never touch /repo or /verif, never read /verif).

The property (this is all the specification you get):
-----
{prop}
-----

TASK: produce TWO independent code changes (call them "a" and "b", using different mechanisms / different code sites) to the library source under {wt}/sketchnu/ such that, for each change on its own:
 1. the library still imports/compiles and the EXISTING test suite still passes completely with the change applied (51 tests; run from the worktree: `cd {wt} && /venv/bin/python -m pytest -q -p no:cacheprovider --timeout=900 -x` — takes roughly 4-8 minutes because Numba compiles eagerly; running from the worktree directory makes `import sketchnu` pick up the worktree's copy — verify with `python -c "import sketchnu; print(sketchnu.__file__)"` run from that directory using /venv/bin/python);
 2. the property above is violated by the changed code;
 3. the violation needs something SPECIFIC to manifest — a particular multi-step sequence of operations, an unusual input (e.g. values near a ceiling, collisions at small widths, high bytes, odd lengths, non-default configuration), a particular interleaving, or two cooperating sites that each look fine alone — NOT something ordinary use would expose at once. Make the change look like a plausible maintainer slip or "optimisation"/refactor (an off-by-one, a changed comparison, a dropped cap or check, a wrong operand/cast/type, a reordered statement, a shortcut for a special case), small (a few lines), and not signposted by comments.
 4. you provide a demonstration: a small standalone Python program `demo.py` (run as `cd <tree> && /venv/bin/python demo.py`, importing sketchnu from the current directory) that exits 0 on the ORIGINAL code and exits non-zero (assertion failure with a clear message) on the CHANGED code. The demo must check the property as stated (not implementation details), and be deterministic.

Deliverables, for x in {{a, b}}: directory {wt}.out/x/ containing
  - patch.diff : output of `git -C {wt} diff` for that change alone (must apply with `git apply` to a clean checkout of the same commit),
  - demo.py,
  - notes.md : which part of the property it breaks, what it needs in order to manifest, why the existing tests miss it, and the exact commands you ran with their results (test-suite summary line with the change applied; demo exit status with and without the change).
Do the changes one at a time: make change a, run the demo (must fail) and the full suite (must pass), save the diff, then `git -C {wt} checkout -- .` and confirm the demo passes on the original; then do b the same way. Leave the worktree clean (original code) when you finish. Do not commit anything. If the suite fails with your change, pick a different change (a single failure of an unseeded statistical t-test that is unrelated to your change may be re-run). Note: `import sketchnu` takes ~20 s (eager JIT), and spawn-based multiprocessing tests re-import in child processes.

Final answer: a short summary of both changes (file, function, one-line description, what is needed to trigger) and confirmation of the checks you ran.


IMPORTANT - changes at these places have ALREADY been used by someone else for this property; do NOT use them or close variants, find different code sites / mechanisms:
{used}

Additional rules: always run python from inside your worktree directory so that `import sketchnu` resolves to the worktree copy (check `sketchnu.__file__`); never use pkill/killall with a pattern (other people run similar commands on this machine) - stop only your own processes by PID; be inventive about WHERE the property can be broken: anything the statement reaches counts (other classes it names, helpers, constants, decorators, interactions between two features), and subtle changes inside the jitted kernels that keep the 51 tests green are welcome too.
"""
props = {json.loads(l)["id"]: json.loads(l) for l in open(os.path.join(V, "properties.jsonl"))}
os.makedirs(ROOT, exist_ok=True)
for pid in sys.argv[2:]:
    p = props[pid]
    used = []
    for d in sorted(glob.glob(os.path.join(V, "seeded", pid + "?"))):
        pd = open(os.path.join(d, "patch.diff")).read()
        hunks = re.findall(r"^@@.*@@ (.*)$", pd, re.M)
        files = re.findall(r"^\+\+\+ b/(.*)$", pd, re.M)
        minus = [l[1:].strip() for l in pd.splitlines() if l.startswith("-") and not l.startswith("---")][:2]
        used.append(" - in %s near `%s` (changed line(s): %s)" % (", ".join(files), "; ".join(h.strip() for h in hunks[:2]), " / ".join(minus)[:160]))
    wt = os.path.join(ROOT, pid)
    prop = "%s — %s\n\n%s\n\nInput space the property quantifies over: %s" % (pid, p["title"], p["statement"], p["quantifier"]["text"])
    open(os.path.join(ROOT, pid + ".prompt.txt"), "w").write(HEAD.format(wt=wt, prop=prop, used="\n".join(used)))
    subprocess.run(["git", "-C", "/repo", "worktree", "remove", "--force", wt], capture_output=True)
    subprocess.run(["git", "-C", "/repo", "worktree", "prune"])
    subprocess.run(["git", "-C", "/repo", "worktree", "add", "--detach", wt, "HEAD", "-q"], check=True)
    os.makedirs(wt + ".out", exist_ok=True)
    print(pid, len(used), "used sites")
